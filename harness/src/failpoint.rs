//! Failpoint callback: logs the point and injects seeded delays.

use std::{
    cell::Cell,
    sync::atomic::{AtomicBool, AtomicU64, Ordering::*},
    time::Duration,
};

use crate::{evlog, rng};

static SEED: AtomicU64 = AtomicU64::new(0);
static LOG_POINTS: AtomicBool = AtomicBool::new(false);
/// 0 = no jitter; otherwise intensity in percent of points that get a delay.
static INTENSITY: AtomicU64 = AtomicU64::new(0);
/// Bit mask of point ids (< 64) that receive a long targeted sleep.
static TARGET_MASK: AtomicU64 = AtomicU64::new(0);
static TARGET_US: AtomicU64 = AtomicU64::new(0);

thread_local! {
    static STATE: Cell<u64> = const { Cell::new(0) };
}

pub fn configure(seed: u64, intensity: u64, log_points: bool) {
    SEED.store(seed, SeqCst);
    INTENSITY.store(intensity, SeqCst);
    LOG_POINTS.store(log_points, SeqCst);
}

pub fn target(mask: u64, us: u64) {
    TARGET_MASK.store(mask, SeqCst);
    TARGET_US.store(us, SeqCst);
}

fn next() -> u64 {
    STATE
        .try_with(|s| {
            let mut x = s.get();
            if x == 0 {
                x = rng::splitmix(SEED.load(Relaxed) ^ ((evlog::tid() as u64) << 20)) | 1;
            }
            x ^= x << 13;
            x ^= x >> 7;
            x ^= x << 17;
            s.set(x);
            rng::splitmix(x)
        })
        .unwrap_or(0)
}

pub fn point(id: u32) {
    if LOG_POINTS.load(Relaxed) {
        evlog::log(evlog::POINT, id as u64, 0, 0);
    }
    let mask = TARGET_MASK.load(Relaxed);
    let mut delayed = false;
    if id < 64 && mask & (1 << id) != 0 {
        let us = TARGET_US.load(Relaxed);
        if us > 0 {
            std::thread::sleep(Duration::from_micros(us));
            delayed = true;
        }
    }
    let intensity = INTENSITY.load(Relaxed);
    if intensity != 0 {
        let r = next();
        if r % 100 < intensity {
            jitter(r);
            delayed = true;
        }
    }
    // A second event after the delay, so that the log brackets the injected pause.
    if delayed && LOG_POINTS.load(Relaxed) {
        evlog::log(evlog::POINT, id as u64, 1, 0);
    }
}

fn jitter(r: u64) {
    match (r >> 8) % 10 {
        0..=4 => std::thread::yield_now(),
        5..=7 => {
            let n = (r >> 16) % 2000;
            for i in 0..n {
                std::hint::black_box(i);
            }
        }
        _ => {
            if cfg!(miri) {
                std::thread::yield_now();
            } else {
                std::thread::sleep(Duration::from_micros(20 + (r >> 16) % 180));
            }
        }
    }
}

pub fn install() {
    divan::verif::install_point(point);
}
