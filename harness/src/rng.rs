//! Tiny deterministic PRNG (splitmix64 / xorshift), allocation-free.

#[inline]
pub fn splitmix(mut x: u64) -> u64 {
    x = x.wrapping_add(0x9E37_79B9_7F4A_7C15);
    let mut z = x;
    z = (z ^ (z >> 30)).wrapping_mul(0xBF58_476D_1CE4_E5B9);
    z = (z ^ (z >> 27)).wrapping_mul(0x94D0_49BB_1331_11EB);
    z ^ (z >> 31)
}

/// Hash of up to three words.
#[inline]
pub fn mix3(a: u64, b: u64, c: u64) -> u64 {
    splitmix(splitmix(splitmix(a) ^ b) ^ c)
}

pub struct Rng(pub u64);

impl Rng {
    pub fn new(seed: u64) -> Self {
        Rng(splitmix(seed) | 1)
    }
    #[inline]
    pub fn next(&mut self) -> u64 {
        let mut x = self.0;
        x ^= x << 13;
        x ^= x >> 7;
        x ^= x << 17;
        self.0 = x;
        splitmix(x)
    }
    #[inline]
    pub fn below(&mut self, n: u64) -> u64 {
        if n == 0 {
            0
        } else {
            self.next() % n
        }
    }
}
