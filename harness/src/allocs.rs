//! Logging allocator layers.
//!
//! `LogOuter<AllocProfiler<LogInner<System>>>` is the sandwich monitor: the outer
//! layer is the ground truth of "allocator operations performed by this thread",
//! the pair checks online that the profiler forwards each request exactly once,
//! unchanged, and returns the inner result (C09), with a per-thread depth counter
//! for re-entry. All state lives in const-initialised, destructor-free thread
//! locals, so the monitor works during thread start-up and tear-down and never
//! allocates.

use std::{
    alloc::{GlobalAlloc, Layout},
    cell::Cell,
    sync::atomic::{AtomicU64, Ordering::*},
};

use crate::evlog;

pub const OP_ALLOC: u64 = 0;
pub const OP_ZEROED: u64 = 1;
pub const OP_REALLOC: u64 = 2;
pub const OP_DEALLOC: u64 = 3;

pub const FLAG_FIRST_ON_THREAD: u64 = 1;
pub const FLAG_IN_TLS_DTOR: u64 = 2;
pub const FLAG_REENTRY: u64 = 4;
pub const FLAG_NULL: u64 = 8;

#[derive(Clone, Copy, PartialEq, Eq, Debug)]
struct Req {
    op: u64,
    size: usize,
    align: usize,
    ptr: usize,
    new_size: usize,
}

const NO_REQ: Req = Req { op: 99, size: 0, align: 0, ptr: 0, new_size: 0 };

thread_local! {
    static DEPTH: Cell<u32> = const { Cell::new(0) };
    static PENDING: Cell<Req> = const { Cell::new(NO_REQ) };
    static INNER_CALLS: Cell<u32> = const { Cell::new(0) };
    static INNER_MATCH: Cell<bool> = const { Cell::new(true) };
    static INNER_RESULT: Cell<usize> = const { Cell::new(0) };
    static SEEN_THREAD: Cell<bool> = const { Cell::new(false) };
    pub static IN_TLS_DTOR: Cell<bool> = const { Cell::new(false) };
}

pub static OUTER_CALLS: AtomicU64 = AtomicU64::new(0);
pub static INNER_TOTAL: AtomicU64 = AtomicU64::new(0);
pub static CALLS_FIRST_ON_THREAD: AtomicU64 = AtomicU64::new(0);
pub static CALLS_IN_TLS_DTOR: AtomicU64 = AtomicU64::new(0);
pub static SANDWICH_VIOLATIONS: AtomicU64 = AtomicU64::new(0);
pub static MAX_DEPTH: AtomicU64 = AtomicU64::new(0);
/// First violation code seen (0 = none): 1 inner calls != 1, 2 argument mismatch,
/// 3 result mismatch, 4 re-entry (depth > 1), 5 inner call without outer request.
pub static FIRST_VIOLATION: AtomicU64 = AtomicU64::new(0);

fn violation(code: u64, a: u64, b: u64) {
    SANDWICH_VIOLATIONS.fetch_add(1, Relaxed);
    let _ = FIRST_VIOLATION.compare_exchange(0, code, Relaxed, Relaxed);
    evlog::log_raw(evlog::ONLINE_VIOLATION, code, a, b);
}

pub struct LogOuter<A> {
    inner: A,
    /// Whether the sandwich check is armed (needs a `LogInner` below).
    sandwich: bool,
}

impl<A> LogOuter<A> {
    pub const fn new(inner: A, sandwich: bool) -> Self {
        Self { inner, sandwich }
    }
}

impl<A: GlobalAlloc> LogOuter<A> {
    #[inline]
    fn around(&self, req: Req, f: impl FnOnce(&A) -> *mut u8) -> *mut u8 {
        OUTER_CALLS.fetch_add(1, Relaxed);
        let mut flags = 0;
        let first = SEEN_THREAD.try_with(|s| !s.replace(true)).unwrap_or(false);
        if first {
            flags |= FLAG_FIRST_ON_THREAD;
            CALLS_FIRST_ON_THREAD.fetch_add(1, Relaxed);
        }
        if IN_TLS_DTOR.try_with(|d| d.get()).unwrap_or(false) {
            flags |= FLAG_IN_TLS_DTOR;
            CALLS_IN_TLS_DTOR.fetch_add(1, Relaxed);
        }
        let depth = DEPTH.try_with(|d| {
            let v = d.get() + 1;
            d.set(v);
            v
        });
        let depth = depth.unwrap_or(1);
        MAX_DEPTH.fetch_max(depth as u64, Relaxed);
        let nested = depth > 1;
        if nested {
            flags |= FLAG_REENTRY;
            if self.sandwich {
                violation(4, req.op, req.size as u64);
            }
        }
        let saved = if self.sandwich && !nested {
            let _ = PENDING.try_with(|p| p.set(req));
            let _ = INNER_CALLS.try_with(|c| c.set(0));
            let _ = INNER_MATCH.try_with(|c| c.set(true));
            true
        } else {
            false
        };
        let result_ptr = f(&self.inner);
        let result = result_ptr.addr();
        if saved {
            let calls = INNER_CALLS.try_with(|c| c.get()).unwrap_or(1);
            let matched = INNER_MATCH.try_with(|c| c.get()).unwrap_or(true);
            let inner_result = INNER_RESULT.try_with(|c| c.get()).unwrap_or(result);
            let _ = PENDING.try_with(|p| p.set(NO_REQ));
            if calls != 1 {
                violation(1, req.op, calls as u64);
            } else if !matched {
                violation(2, req.op, req.size as u64);
            } else if req.op != OP_DEALLOC && inner_result != result {
                violation(3, req.op, req.size as u64);
            }
        }
        let _ = DEPTH.try_with(|d| d.set(d.get() - 1));
        if req.op != OP_DEALLOC && result == 0 {
            flags |= FLAG_NULL;
        }
        evlog::log_raw(
            evlog::ALLOC_OP,
            req.op | ((req.align.trailing_zeros() as u64) << 8) | (flags << 16),
            req.size as u64,
            req.new_size as u64,
        );
        result_ptr
    }
}

unsafe impl<A: GlobalAlloc> GlobalAlloc for LogOuter<A> {
    unsafe fn alloc(&self, layout: Layout) -> *mut u8 {
        let req = Req { op: OP_ALLOC, size: layout.size(), align: layout.align(), ptr: 0, new_size: 0 };
        self.around(req, |a| a.alloc(layout))
    }
    unsafe fn alloc_zeroed(&self, layout: Layout) -> *mut u8 {
        let req = Req { op: OP_ZEROED, size: layout.size(), align: layout.align(), ptr: 0, new_size: 0 };
        self.around(req, |a| a.alloc_zeroed(layout))
    }
    unsafe fn realloc(&self, ptr: *mut u8, layout: Layout, new_size: usize) -> *mut u8 {
        let req = Req { op: OP_REALLOC, size: layout.size(), align: layout.align(), ptr: ptr.addr(), new_size };
        self.around(req, |a| a.realloc(ptr, layout, new_size))
    }
    unsafe fn dealloc(&self, ptr: *mut u8, layout: Layout) {
        let req = Req { op: OP_DEALLOC, size: layout.size(), align: layout.align(), ptr: ptr.addr(), new_size: 0 };
        self.around(req, |a| {
            a.dealloc(ptr, layout);
            std::ptr::null_mut()
        });
    }
}

pub struct LogInner<A> {
    inner: A,
}

impl<A> LogInner<A> {
    pub const fn new(inner: A) -> Self {
        Self { inner }
    }
}

impl<A: GlobalAlloc> LogInner<A> {
    #[inline]
    fn observe(&self, req: Req) {
        INNER_TOTAL.fetch_add(1, Relaxed);
        let pending = PENDING.try_with(|p| p.get()).unwrap_or(NO_REQ);
        if pending == NO_REQ {
            violation(5, req.op, req.size as u64);
            return;
        }
        let _ = INNER_CALLS.try_with(|c| c.set(c.get() + 1));
        if pending != req {
            let _ = INNER_MATCH.try_with(|c| c.set(false));
        }
    }
    #[inline]
    fn result(&self, r: *mut u8) -> *mut u8 {
        let _ = INNER_RESULT.try_with(|c| c.set(r.addr()));
        r
    }
}

unsafe impl<A: GlobalAlloc> GlobalAlloc for LogInner<A> {
    unsafe fn alloc(&self, layout: Layout) -> *mut u8 {
        self.observe(Req { op: OP_ALLOC, size: layout.size(), align: layout.align(), ptr: 0, new_size: 0 });
        self.result(self.inner.alloc(layout))
    }
    unsafe fn alloc_zeroed(&self, layout: Layout) -> *mut u8 {
        self.observe(Req { op: OP_ZEROED, size: layout.size(), align: layout.align(), ptr: 0, new_size: 0 });
        self.result(self.inner.alloc_zeroed(layout))
    }
    unsafe fn realloc(&self, ptr: *mut u8, layout: Layout, new_size: usize) -> *mut u8 {
        self.observe(Req { op: OP_REALLOC, size: layout.size(), align: layout.align(), ptr: ptr.addr(), new_size });
        self.result(self.inner.realloc(ptr, layout, new_size))
    }
    unsafe fn dealloc(&self, ptr: *mut u8, layout: Layout) {
        self.observe(Req { op: OP_DEALLOC, size: layout.size(), align: layout.align(), ptr: ptr.addr(), new_size: 0 });
        self.inner.dealloc(ptr, layout)
    }
}
