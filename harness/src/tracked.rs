//! Instrumented value shapes and scripted user closures for the sample loop.
//!
//! Every generated value has a unique id; generation, counting, calls and drops
//! are logged at the boundary (user closures and `Drop` impls).

use std::{
    alloc::{alloc, alloc_zeroed, dealloc, realloc, Layout},
    cell::Cell,
    sync::atomic::{AtomicPtr, AtomicU64, Ordering::*},
    time::Duration,
};

use crate::{cfg::Cfg, clock, evlog, rng};

pub const PH_GEN: u64 = 0;
pub const PH_COUNT: u64 = 1;
pub const PH_CALL: u64 = 2;
pub const PH_DROP_OUT: u64 = 3;
pub const PH_DROP_IN: u64 = 4;

pub const ALL_THREADS: u64 = 255;

/// Scripted behaviour of the user closures for one run.
#[derive(Clone, Debug, Default)]
pub struct Script {
    pub seed: u64,
    pub gen_cost: u64,
    pub call_base: u64,
    pub call_step: u64,
    pub call_mod: u64,
    pub call_thr: u64,
    pub call_noise: u64,
    pub call_grow: u64,
    pub call_list: Vec<u64>,
    pub drop_in_cost: u64,
    pub drop_out_cost: u64,
    /// Input-counter value script: `(mul * x + add + kind) % modulo`, x = id or ordinal.
    pub ic_mul: u64,
    pub ic_add: u64,
    pub ic_mod: u64,
    /// Allocation scripts.
    pub gen_alloc_n: u64,
    pub gen_alloc_size: u64,
    pub call_ops: Vec<(u8, u64)>,
    pub call_thr_scale: bool,
    /// Scale sizes by 1 + (per-thread call ordinal % this) so that samples differ in their figures (0 = off).
    pub call_var: u64,
    /// Run the call script only during the first N calls of a thread (0 = always): lazy initialisation / warm-up.
    pub call_only_first: u64,
    /// Allocate only from a thread's n-th call on (a cache that starts to fill late, amortised growth).
    pub call_from: u64,
    /// Bit mask of thread indices (0 = caller, N = divan-N) whose calls run the script (0 = every thread).
    pub call_thread_mask: u64,
    /// Alternate, by call ordinal, between two orders of the same operations (both blocks live at once / one at a
    /// time): identical tallies, different peaks.
    pub call_peak_alt: bool,
    pub call_free: bool,
    /// Pre-filled stash (filled by the main thread before the run): `stash_n` blocks of `stash_size`
    /// bytes; every call (`stash_where` 0), generation (1) or input drop (2) frees one block and
    /// allocates nothing — memory released by a thread that did not allocate it.
    pub stash_n: u64,
    pub stash_size: u64,
    pub stash_where: u64,
    pub drop_alloc_n: u64,
    pub drop_alloc_size: u64,
    pub count_alloc_n: u64,
    /// Real-time skew: sleep `us` in `phase` on thread `k` (or all).
    pub stash_equal: bool,
    pub skew_phase: u64,
    pub skew_thread: u64,
    pub skew_us: u64,
    /// Panic plan.
    pub panic_on: bool,
    pub panic_phase: u64,
    pub panic_thread: u64,
    pub panic_index: u64,
}

impl Script {
    pub fn from_cfg(c: &Cfg) -> Self {
        let mut s = Script {
            seed: c.u64("seed", 1),
            gen_cost: c.u64("gcost", 0),
            call_base: c.u64("cbase", 0),
            call_step: c.u64("cstep", 0),
            call_mod: c.u64("cmod", 1).max(1),
            call_thr: c.u64("cthr", 0),
            call_noise: c.u64("cnoise", 0),
            call_grow: c.u64("cgrow", 0),
            call_list: c.list("clist"),
            drop_in_cost: c.u64("dicost", 0),
            drop_out_cost: c.u64("docost", 0),
            ic_mul: c.u64("icmul", 1),
            ic_add: c.u64("icadd", 0),
            ic_mod: c.u64("icmod", 1 << 20).max(1),
            gen_alloc_n: c.u64("gan", 0),
            gen_alloc_size: c.u64("gasz", 16),
            call_ops: Vec::new(),
            call_thr_scale: c.u64("cathr", 0) != 0,
            call_var: c.u64("cavar", 0),
            call_only_first: c.u64("caonly", 0),
            call_from: c.u64("cafrom", 0),
            call_thread_mask: c.u64("camask", 0),
            call_peak_alt: c.u64("caalt", 0) != 0,
            call_free: c.u64("cafree", 1) != 0,
            stash_n: c.u64("stash", 0),
            stash_size: c.u64("stashsz", 64),
            stash_where: c.u64("stashw", 0),
            stash_equal: c.u64("stashe", 0) != 0,
            drop_alloc_n: c.u64("dan", 0),
            drop_alloc_size: c.u64("dasz", 16),
            count_alloc_n: c.u64("can", 0),
            skew_phase: 99,
            skew_thread: 0,
            skew_us: 0,
            panic_on: false,
            panic_phase: 0,
            panic_thread: 0,
            panic_index: 0,
        };
        // call ops: e.g. "a64,z32,g128,s16,d"
        let ops = c.str("caops", "");
        for tok in ops.split(',').filter(|t| !t.is_empty()) {
            let (op, rest) = tok.split_at(1);
            let n: u64 = if rest.is_empty() { 0 } else { rest.parse().expect("bad caops size") };
            s.call_ops.push((op.as_bytes()[0], n));
        }
        if c.has("skew") {
            let v = c.list("skew");
            s.skew_phase = v[0];
            s.skew_thread = v[1];
            s.skew_us = v[2];
        }
        if c.has("panic") {
            let v = c.list("panic");
            s.panic_on = true;
            s.panic_phase = v[0];
            s.panic_thread = v[1];
            s.panic_index = v[2];
        }
        s
    }

    #[inline]
    pub fn call_cost(&self, j: u64, k: u64) -> u64 {
        if !self.call_list.is_empty() {
            return self.call_list[(j % self.call_list.len() as u64) as usize];
        }
        let mut c = self.call_base + self.call_step * (j % self.call_mod) + self.call_thr * k + self.call_grow * j;
        if self.call_noise > 0 {
            c += rng::mix3(self.seed, j, k) % (self.call_noise + 1);
        }
        c
    }
}

static SCRIPT: AtomicPtr<Script> = AtomicPtr::new(std::ptr::null_mut());
static RUN_ID: AtomicU64 = AtomicU64::new(0);
static NEXT_ID: AtomicU64 = AtomicU64::new(1);

/// Installs the script for the next run (the previous one is leaked on purpose:
/// stray threads of an earlier run may still hold a reference).
pub fn install_script(s: Script) {
    static KEEP: std::sync::Mutex<Vec<usize>> = std::sync::Mutex::new(Vec::new());
    let p = Box::into_raw(Box::new(s));
    // Keep every script reachable from a global so leak checkers do not report it.
    KEEP.lock().unwrap().push(p as usize);
    SCRIPT.store(p, SeqCst);
    RUN_ID.fetch_add(1, SeqCst);
    NEXT_ID.store(1, SeqCst);
}

#[inline]
pub fn script() -> &'static Script {
    let p = SCRIPT.load(Relaxed);
    assert!(!p.is_null(), "no script installed");
    unsafe { &*p }
}

#[inline]
pub fn fresh_id() -> u64 {
    NEXT_ID.fetch_add(1, Relaxed)
}

// Per-thread ordinals, keyed by run id so that the main thread restarts at 0.
thread_local! {
    static ORD_RUN: Cell<u64> = const { Cell::new(0) };
    static ORDS: [Cell<u64>; 5] = const { [Cell::new(0), Cell::new(0), Cell::new(0), Cell::new(0), Cell::new(0)] };
}

#[inline]
fn next_ord(phase: u64) -> u64 {
    let run = RUN_ID.load(Relaxed);
    let _ = ORD_RUN.try_with(|r| {
        if r.get() != run {
            r.set(run);
            let _ = ORDS.try_with(|o| o.iter().for_each(|c| c.set(0)));
        }
    });
    ORDS.try_with(|o| {
        let c = &o[phase as usize];
        let v = c.get();
        c.set(v + 1);
        v
    })
    .unwrap_or(0)
}

#[inline]
fn maybe_panic(phase: u64, ord: u64) {
    let s = script();
    if s.panic_on && s.panic_phase == phase && s.panic_index == ord {
        let k = evlog::kidx() as u64;
        if s.panic_thread == ALL_THREADS || s.panic_thread == k {
            evlog::log(evlog::PANIC_INJECTED, phase, ord, k);
            panic!("injected panic phase={phase} ord={ord} k={k}");
        }
    }
}

#[inline]
fn skew(phase: u64) {
    let s = script();
    if s.skew_phase == phase && s.skew_us > 0 {
        let k = evlog::kidx() as u64;
        if s.skew_thread == ALL_THREADS || s.skew_thread == k {
            if cfg!(miri) {
                for _ in 0..4 {
                    std::thread::yield_now();
                }
            } else {
                std::thread::sleep(Duration::from_micros(s.skew_us));
            }
        }
    }
}

// Blocks a call script leaves allocated ("pending") are parked in a global table row owned by the
// thread's divan index, freed by that thread's next `gen` (outside any timed window) and, for what is
// left at the end of a run, by the main thread.
const ROWS: usize = 40;
const ROW_LEN: usize = 16;
static PEND_PTR: [[AtomicPtr<u8>; ROW_LEN]; ROWS] = [const { [const { AtomicPtr::new(std::ptr::null_mut()) }; ROW_LEN] }; ROWS];
static PEND_SIZE: [[AtomicU64; ROW_LEN]; ROWS] = [const { [const { AtomicU64::new(0) }; ROW_LEN] }; ROWS];
static PEND_N: [AtomicU64; ROWS] = [const { AtomicU64::new(0) }; ROWS];

fn free_row(row: usize) {
    let n = PEND_N[row].swap(0, Relaxed) as usize;
    for i in 0..n.min(ROW_LEN) {
        let ptr = PEND_PTR[row][i].swap(std::ptr::null_mut(), Relaxed);
        let size = PEND_SIZE[row][i].load(Relaxed) as usize;
        if !ptr.is_null() {
            unsafe { dealloc(ptr, Layout::from_size_align(size, 8).unwrap()) };
        }
    }
}

const STASH_CAP: usize = 8192;
static STASH: [AtomicPtr<u8>; STASH_CAP] = [const { AtomicPtr::new(std::ptr::null_mut()) }; STASH_CAP];
static STASH_TOP: AtomicU64 = AtomicU64::new(0);
static STASH_SIZE: AtomicU64 = AtomicU64::new(0);

/// Fills the stash (main thread, before the run starts).
pub fn prefill_stash() {
    let s = script();
    let n = (s.stash_n as usize).min(if cfg!(miri) { 128 } else { STASH_CAP });
    let size = s.stash_size.max(1);
    STASH_SIZE.store(size, Relaxed);
    for slot in STASH.iter().take(n) {
        let p = unsafe { alloc(Layout::from_size_align(size as usize, 8).unwrap()) };
        assert!(!p.is_null());
        slot.store(p, Relaxed);
    }
    STASH_TOP.store(n as u64, SeqCst);
}

/// Frees one stashed block on the calling thread, if any is left; allocates nothing.
fn stash_pop(place: u64) {
    let s = script();
    if s.stash_n == 0 || s.stash_where != place {
        return;
    }
    if s.stash_equal {
        // the thread reallocates "its" stashed block (slot = thread index) to the size it already has and keeps it: an
        // allocator operation that moves zero bytes, on a block that is older than any timed section
        let k = evlog::kidx() as usize;
        if k < STASH_CAP && (k as u64) < STASH_TOP.load(Relaxed) {
            let size = STASH_SIZE.load(Relaxed) as usize;
            let p = STASH[k].swap(std::ptr::null_mut(), Relaxed);
            if !p.is_null() {
                let np = unsafe { realloc(p, Layout::from_size_align(size, 8).unwrap(), size) };
                assert!(!np.is_null());
                STASH[k].store(np, Relaxed);
            }
        }
        return;
    }
    let mut top = STASH_TOP.load(Relaxed);
    while top > 0 {
        match STASH_TOP.compare_exchange_weak(top, top - 1, AcqRel, Relaxed) {
            Ok(_) => {
                let p = STASH[(top - 1) as usize].swap(std::ptr::null_mut(), Relaxed);
                if !p.is_null() {
                    unsafe { dealloc(p, Layout::from_size_align(STASH_SIZE.load(Relaxed) as usize, 8).unwrap()) };
                }
                return;
            }
            Err(t) => top = t,
        }
    }
}

fn free_stash() {
    let n = STASH_TOP.swap(0, SeqCst) as usize;
    let size = STASH_SIZE.load(Relaxed) as usize;
    for slot in STASH.iter().take(n.min(STASH_CAP)) {
        let p = slot.swap(std::ptr::null_mut(), Relaxed);
        if !p.is_null() {
            unsafe { dealloc(p, Layout::from_size_align(size, 8).unwrap()) };
        }
    }
}

fn free_pending() {
    let k = evlog::kidx() as usize;
    if k < ROWS {
        free_row(k);
    }
}

/// Frees blocks that call scripts left pending on any thread (call on the main thread after the run).
pub fn end_of_run_cleanup() {
    for row in 0..ROWS {
        free_row(row);
    }
    free_stash();
}

fn churn(n: u64, size: u64) {
    for _ in 0..n {
        let layout = Layout::from_size_align(size.max(1) as usize, 8).unwrap();
        unsafe {
            let p = alloc(layout);
            assert!(!p.is_null());
            std::ptr::write_volatile(p, 1);
            dealloc(p, layout);
        }
    }
}

/// Executes the scripted allocator traffic of one call.
fn call_allocs(ord: u64) {
    let s = script();
    if s.call_peak_alt {
        let l = Layout::from_size_align(64, 8).unwrap();
        unsafe {
            if (ord / s.call_var.max(1)) % 2 == 0 {
                // (volatile writes: an unused allocation may be optimised away)
                let (a, b) = (alloc(l), alloc(l));
                assert!(!a.is_null() && !b.is_null());
                std::ptr::write_volatile(a, 1);
                std::ptr::write_volatile(b, 2);
                dealloc(a, l);
                dealloc(b, l);
            } else {
                let a = alloc(l);
                assert!(!a.is_null());
                std::ptr::write_volatile(a, 1);
                dealloc(a, l);
                let b = alloc(l);
                assert!(!b.is_null());
                std::ptr::write_volatile(b, 2);
                dealloc(b, l);
            }
        }
        return;
    }
    if s.call_ops.is_empty() || (s.call_only_first > 0 && ord >= s.call_only_first) || ord < s.call_from {
        return;
    }
    if s.call_thread_mask != 0 && (s.call_thread_mask >> (evlog::kidx() as u64).min(63)) & 1 == 0 {
        return;
    }
    let mut scale = if s.call_thr_scale { evlog::kidx() as u64 + 1 } else { 1 };
    if s.call_var > 0 {
        scale *= 1 + ord % s.call_var;
    }
    // Fixed-size stack of live blocks: (ptr, size).
    let mut stack: [(*mut u8, usize); 16] = [(std::ptr::null_mut(), 0); 16];
    let mut top = 0usize;
    for &(op, n) in &s.call_ops {
        let size = (n * scale).max(1) as usize;
        unsafe {
            match op {
                b'a' | b'z' => {
                    if top < 16 {
                        let layout = Layout::from_size_align(size, 8).unwrap();
                        let p = if op == b'a' { alloc(layout) } else { alloc_zeroed(layout) };
                        assert!(!p.is_null());
                        std::ptr::write_volatile(p, 7); // keep the allocation observable to the optimiser
                        stack[top] = (p, size);
                        top += 1;
                    }
                }
                b'g' | b's' => {
                    if top > 0 {
                        let (p, old) = stack[top - 1];
                        let np = realloc(p, Layout::from_size_align(old, 8).unwrap(), size);
                        assert!(!np.is_null());
                        stack[top - 1] = (np, size);
                    }
                }
                b'd' => {
                    if top > 0 {
                        top -= 1;
                        let (p, old) = stack[top];
                        dealloc(p, Layout::from_size_align(old, 8).unwrap());
                    }
                }
                _ => panic!("bad call op"),
            }
        }
    }
    if s.call_free {
        while top > 0 {
            top -= 1;
            let (p, old) = stack[top];
            unsafe { dealloc(p, Layout::from_size_align(old, 8).unwrap()) };
        }
    } else {
        // Leave blocks pending; the next `gen` on this thread frees them (outside any timed window).
        let k = evlog::kidx() as usize;
        if k < ROWS {
            let mut cnt = PEND_N[k].load(Relaxed) as usize;
            while top > 0 && cnt < ROW_LEN {
                top -= 1;
                PEND_PTR[k][cnt].store(stack[top].0, Relaxed);
                PEND_SIZE[k][cnt].store(stack[top].1 as u64, Relaxed);
                cnt += 1;
            }
            PEND_N[k].store(cnt as u64, Relaxed);
        }
        while top > 0 {
            top -= 1;
            let (p, old) = stack[top];
            unsafe { dealloc(p, Layout::from_size_align(old, 8).unwrap()) };
        }
    }
}

// ---------------------------------------------------------------------------
// Inputs
// ---------------------------------------------------------------------------

pub trait In: Sized + 'static {
    const CODE: &'static str;
    const HAS_ID: bool;
    fn make() -> Self;
    fn id(&self) -> u64;
}

pub struct InZ;
pub struct InZD;
pub struct InS {
    pub id: u64,
}
pub struct InSD {
    pub id: u64,
    pub heap: Box<u64>,
}

fn drop_in_hook(id: u64) {
    let ord = next_ord(PH_DROP_IN);
    evlog::log(evlog::DROP_IN, id, ord, 0);
    let s = script();
    skew(PH_DROP_IN);
    stash_pop(2);
    churn(s.drop_alloc_n, s.drop_alloc_size);
    clock::charge(s.drop_in_cost);
    if !std::thread::panicking() {
        maybe_panic(PH_DROP_IN, ord);
    }
}

impl Drop for InZD {
    fn drop(&mut self) {
        drop_in_hook(0);
    }
}

impl Drop for InSD {
    fn drop(&mut self) {
        assert_eq!(*self.heap, self.id ^ 0x5A5A, "input heap cell corrupted");
        drop_in_hook(self.id);
    }
}

impl In for InZ {
    const CODE: &'static str = "z";
    const HAS_ID: bool = false;
    fn make() -> Self {
        InZ
    }
    fn id(&self) -> u64 {
        0
    }
}
impl In for InZD {
    const CODE: &'static str = "zd";
    const HAS_ID: bool = false;
    fn make() -> Self {
        InZD
    }
    fn id(&self) -> u64 {
        0
    }
}
impl In for InS {
    const CODE: &'static str = "s";
    const HAS_ID: bool = true;
    fn make() -> Self {
        InS { id: fresh_id() }
    }
    fn id(&self) -> u64 {
        self.id
    }
}
impl In for InSD {
    const CODE: &'static str = "sd";
    const HAS_ID: bool = true;
    fn make() -> Self {
        let id = fresh_id();
        InSD { id, heap: Box::new(id ^ 0x5A5A) }
    }
    fn id(&self) -> u64 {
        self.id
    }
}
impl In for u64 {
    const CODE: &'static str = "u";
    const HAS_ID: bool = true;
    fn make() -> Self {
        fresh_id()
    }
    fn id(&self) -> u64 {
        *self
    }
}

/// The input generator given to `with_inputs`.
pub fn gen<I: In>() -> I {
    let ord = next_ord(PH_GEN);
    maybe_panic(PH_GEN, ord);
    skew(PH_GEN);
    free_pending();
    stash_pop(1);
    let s = script();
    churn(s.gen_alloc_n, s.gen_alloc_size);
    clock::charge(s.gen_cost);
    let v = I::make();
    evlog::log(evlog::GEN, v.id(), ord, 0);
    v
}

/// Value returned by the scripted input counter of `kind` for input `id`.
pub fn count_value<I: In>(kind: u64, input: &I) -> u64 {
    let ord = next_ord(PH_COUNT);
    let s = script();
    let x = if I::HAS_ID { input.id() } else { ord };
    let v = (s.ic_mul.wrapping_mul(x).wrapping_add(s.ic_add).wrapping_add(kind)) % s.ic_mod;
    evlog::log(evlog::COUNT, input.id(), kind, v);
    skew(PH_COUNT);
    churn(s.count_alloc_n, 24);
    maybe_panic(PH_COUNT, ord);
    v
}

// ---------------------------------------------------------------------------
// Outputs
// ---------------------------------------------------------------------------

pub trait Out<I>: Sized + 'static {
    const CODE: &'static str;
    /// Builds the output of a by-value call (consumes or carries the input).
    fn from_owned(input: I) -> (Self, u64);
    /// Builds the output of a by-reference / no-input call.
    fn from_id(input_id: u64) -> (Self, u64);
}

pub struct OutZ;
pub struct OutZD;
pub struct OutS {
    pub id: u64,
    pub from: u64,
}
pub struct OutSD {
    pub id: u64,
    pub from: u64,
    pub heap: Box<u64>,
}
pub struct OutC<I> {
    pub id: u64,
    pub from: u64,
    pub carry: Option<I>,
}

fn drop_out_hook(id: u64, from: u64) {
    let ord = next_ord(PH_DROP_OUT);
    evlog::log(evlog::DROP_OUT, id, from, ord);
    let s = script();
    skew(PH_DROP_OUT);
    stash_pop(2);
    churn(s.drop_alloc_n, s.drop_alloc_size);
    clock::charge(s.drop_out_cost);
    if !std::thread::panicking() {
        maybe_panic(PH_DROP_OUT, ord);
    }
}

impl Drop for OutZD {
    fn drop(&mut self) {
        drop_out_hook(0, 0);
    }
}
impl Drop for OutSD {
    fn drop(&mut self) {
        assert_eq!(*self.heap, self.id ^ 0xA5A5, "output heap cell corrupted");
        drop_out_hook(self.id, self.from);
    }
}
impl<I> Drop for OutC<I> {
    fn drop(&mut self) {
        drop_out_hook(self.id, self.from);
        // `carry` is dropped right after this body: its own hook logs drop_in.
    }
}

macro_rules! plain_out {
    ($t:ty, $code:expr, |$id:ident, $from:ident| $make:expr) => {
        impl<I: In> Out<I> for $t {
            const CODE: &'static str = $code;
            fn from_owned(input: I) -> (Self, u64) {
                let from = input.id();
                drop(input);
                <Self as Out<I>>::from_id(from)
            }
            fn from_id($from: u64) -> (Self, u64) {
                let $id = fresh_id();
                let _ = $from;
                ($make, $id)
            }
        }
    };
}

plain_out!(OutZ, "z", |id, from| OutZ);
plain_out!(OutZD, "zd", |id, from| OutZD);
plain_out!(OutS, "s", |id, from| OutS { id, from });
plain_out!(OutSD, "sd", |id, from| OutSD { id, from, heap: Box::new(id ^ 0xA5A5) });

impl<I: In> Out<I> for OutC<I> {
    const CODE: &'static str = "c";
    fn from_owned(input: I) -> (Self, u64) {
        let id = fresh_id();
        let from = input.id();
        (OutC { id, from, carry: Some(input) }, id)
    }
    fn from_id(from: u64) -> (Self, u64) {
        let id = fresh_id();
        (OutC { id, from, carry: None }, id)
    }
}

#[inline]
fn call_prologue(input_id: u64) {
    evlog::log(evlog::CALL_BEGIN, input_id, 0, 0);
    let ord = next_ord(PH_CALL);
    maybe_panic(PH_CALL, ord);
    skew(PH_CALL);
    call_allocs(ord);
    stash_pop(0);
    let s = script();
    clock::charge(s.call_cost(ord, evlog::kidx() as u64));
}

/// Benchmarked function, by value.
pub fn call_value<I: In, O: Out<I>>(input: I) -> O {
    let input_id = input.id();
    call_prologue(input_id);
    let (out, out_id) = O::from_owned(input);
    evlog::log(evlog::CALL_END, input_id, out_id, 0);
    out
}

/// Benchmarked function, by reference.
pub fn call_ref<I: In, O: Out<I>>(input: &mut I) -> O {
    let input_id = input.id();
    call_prologue(input_id);
    let (out, out_id) = O::from_id(input_id);
    evlog::log(evlog::CALL_END, input_id, out_id, 0);
    out
}

/// Benchmarked function without input.
pub fn call_unit<O: Out<InZ>>() -> O {
    call_prologue(0);
    let (out, out_id) = O::from_id(0);
    evlog::log(evlog::CALL_END, 0, out_id, 0);
    out
}
