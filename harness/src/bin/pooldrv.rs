//! Thread-pool driver (C06, C07): runs histories of broadcasts on the real `ThreadPool`.
//!
//! The task writes *plain, non-atomic* data into a per-index cell that the caller
//! reads after the broadcast returned, so a missing happens-before edge is a data
//! race for Miri / TSan whatever the hardware; the caller scribbles over its stack
//! after each return so that a late access to the dead task block is a race / crash.

use std::{
    cell::{Cell, UnsafeCell},
    io::Write,
    sync::atomic::{AtomicU64, Ordering::*},
};

use divan::verif::Pool;
use vharness::{
    cfg::{self, Cfg},
    evlog, failpoint, rng,
};

struct Cells(Vec<UnsafeCell<u64>>);
unsafe impl Sync for Cells {}
impl Cells {
    #[inline]
    fn cell(&self, i: usize) -> *mut u64 {
        self.0[i].get()
    }
}

static ONLINE_VIOLATIONS: AtomicU64 = AtomicU64::new(0);

fn online_violation(code: u64, a: u64, b: u64, msg: &str) {
    ONLINE_VIOLATIONS.fetch_add(1, SeqCst);
    evlog::log_always(evlog::ONLINE_VIOLATION, code, a, b);
    eprintln!("ONLINE-VIOLATION code={code} a={a} b={b} {msg}");
}

struct ExitGuard;
impl Drop for ExitGuard {
    fn drop(&mut self) {
        evlog::log_always(evlog::THREAD_EXIT, 0, 0, 0);
        EXITS.fetch_add(1, SeqCst);
    }
}
static EXITS: AtomicU64 = AtomicU64::new(0);
static GUARDS: AtomicU64 = AtomicU64::new(0);
thread_local! {
    static GUARD: ExitGuard = const { ExitGuard };
    static GUARD_SET: Cell<bool> = const { Cell::new(false) };
}

fn install_exit_guard() {
    let fresh = GUARD_SET.try_with(|g| !g.replace(true)).unwrap_or(false);
    if fresh {
        GUARD.with(|_| {});
        GUARDS.fetch_add(1, SeqCst);
    }
}

#[inline(never)]
fn scribble(pattern: u64) -> u64 {
    // Overwrite the stack region the previous broadcast's frames occupied.
    let mut buf = [0u64; 96];
    for (i, slot) in buf.iter_mut().enumerate() {
        unsafe { std::ptr::write_volatile(slot, pattern ^ i as u64) };
    }
    let mut acc = 0u64;
    for slot in buf.iter() {
        acc ^= unsafe { std::ptr::read_volatile(slot) };
    }
    std::hint::black_box(acc)
}

fn token(b: usize, index: usize) -> u64 {
    0xC0FFEE00_00000000 | ((b as u64) << 20) | index as u64
}

fn delay(kind: u64, amount: u64) {
    match kind {
        0 => {}
        1 => std::thread::yield_now(),
        2 => {
            for i in 0..amount * 50 {
                std::hint::black_box(i);
            }
        }
        _ => {
            if cfg!(miri) {
                for _ in 0..amount.min(8) {
                    std::thread::yield_now();
                }
            } else {
                std::thread::sleep(std::time::Duration::from_micros(amount));
            }
        }
    }
}

fn run_history(out: &mut dyn Write, line: &str) {
    let c = Cfg::parse(line);
    let id = c.str("id", "0");
    let mut hist: Vec<usize> = c.list("hist").into_iter().map(|x| x as usize).collect();
    // `rep=k`: the first width of the history is broadcast k times in a row (a long streak at one width) before the rest follows
    let rep = c.u64("rep", 1) as usize;
    if rep > 1 && !hist.is_empty() {
        let w = hist[0];
        hist.splice(0..1, std::iter::repeat(w).take(rep));
    }
    // `dmlast=m`: the delay mode of the broadcasts after the streak (the whole history without `rep`'s streak keeps `dmode`)
    let dmlast = c.u64("dmlast", 99);
    let par_extend = c.u64("pe", 0) != 0;
    let seed = c.u64("seed", 1);
    let dmode = c.u64("dmode", 0); // 0 none, 1 fast workers/slow caller, 2 slow workers, 3 random
    let damount = c.u64("damount", 50);
    let panics: Vec<(usize, usize)> = c
        .str("panics", "")
        .split(',')
        .filter(|t| !t.is_empty())
        .map(|t| {
            let (a, b) = t.split_once(':').unwrap();
            (a.parse().unwrap(), b.parse().unwrap())
        })
        .collect();
    failpoint::configure(c.u64("fpseed", 0), c.u64("fpint", 0), c.u64("fplog", 1) != 0);
    failpoint::target(c.u64("fpmask", 0), c.u64("fpus", 0));

    let offsets: Vec<usize> = hist
        .iter()
        .scan(0usize, |acc, &n| {
            let o = *acc;
            *acc += n + 1;
            Some(o)
        })
        .collect();
    let total: usize = hist.iter().map(|n| n + 1).sum();
    let cells = Cells((0..total).map(|_| UnsafeCell::new(0)).collect());
    let calls: Vec<AtomicU64> = (0..total).map(|_| AtomicU64::new(0)).collect();
    let guards0 = GUARDS.load(SeqCst);
    let exits0 = EXITS.load(SeqCst);
    let v0 = ONLINE_VIOLATIONS.load(SeqCst);
    let main_tid = evlog::tid();

    evlog::reset();
    evlog::enable(true);
    evlog::log(evlog::RUN_BEGIN, 0, 0, 0);
    for s in STARTED.iter() {
        s.store(0, SeqCst);
    }

    let callers = (c.u64("callers", 1) as usize).max(1);
    let concurrent = c.u64("cmode", 0) != 0;
    let reuse_vec = c.u64("reuse", 0) != 0;
    // The caller's own call (index 0) panics with a payload whose destructor panics as well: the
    // broadcast then leaves by unwinding, which must still happen only after every call is over.
    let bomb = c.u64("bomb", 0) != 0;
    // A pooled call (index >= 1) panics with such a payload: the pool cannot drop it without a second panic on the worker. It may
    // end the process there (divan aborts by design); if the process goes on, the pool must still be whole for the next broadcasts.
    let wbomb = c.u64("wbomb", 0) != 0;
    // The closure handed to the pool owns over-aligned state (a u128 and a cache-padded block).
    let oalign = c.u64("oalign", 0) != 0;
    // An idle gap before broadcast `gapat`: pooled threads must survive it and be reused.
    // Thread creation fails while broadcast `spawnfail` grows the pool (address-space limit lowered for its duration).
    let spawn_fail_at = c.i64("spawnfail", -1);
    let gap_at = c.i64("gapat", -1);
    let gap_ms = c.u64("gapms", 0);
    let pe_lines: std::sync::Mutex<Vec<String>> = std::sync::Mutex::new(Vec::new());
    let tc_line: std::sync::Mutex<Vec<(usize, usize)>> = std::sync::Mutex::new(Vec::new());
    let sf_lines: std::sync::Mutex<Vec<String>> = std::sync::Mutex::new(Vec::new());
    {
        let pool = Pool::new();
        // One caller thread runs a contiguous segment of the history; with several callers the segments run one after the
        // other (each on a fresh thread) or concurrently on the shared pool.
        let run_segment = |range: std::ops::Range<usize>| {
        // like divan's sample loop, the result vector may be cleared and reused from one broadcast to the next
        let mut reused: Vec<Option<u64>> = Vec::new();
        for b in range {
            let n = hist[b];
            let off = offsets[b];
            let dmode = if dmlast != 99 && b >= rep { dmlast } else { dmode };
            if gap_ms > 0 && gap_at == b as i64 {
                std::thread::sleep(std::time::Duration::from_millis(gap_ms));
            }
            if spawn_fail_at == b as i64 {
                // No new thread stack can be mapped during this broadcast. It either completes (enough workers exist) or
                // leaves by a panic; in both cases no call may still be running, or start, once control is back here.
                let started_before: u64 = (0..=n).map(|i| calls[off + i].load(Relaxed)).sum();
                evlog::log(evlog::BCAST_CALL, b as u64, n as u64, 0);
                let old = lower_address_space_limit();
                let r = std::panic::catch_unwind(std::panic::AssertUnwindSafe(|| {
                    pool.broadcast(n, |index| {
                        let k = evlog::kidx();
                        if k >= 1 && k < 0xFFFE {
                            install_exit_guard();
                        }
                        evlog::log(evlog::TASK_BEGIN, b as u64, index as u64, 0);
                        calls[off + index].fetch_add(1, Relaxed);
                        delay(3, damount);
                        unsafe { *cells.cell(off + index) = token(b, index) };
                        evlog::log(evlog::TASK_END, b as u64, index as u64, 0);
                    })
                }));
                restore_address_space_limit(old);
                evlog::log(evlog::BCAST_RETURN, b as u64, n as u64, r.is_err() as u64);
                let done_at_return: Vec<u64> = (0..=n).map(|i| unsafe { *cells.cell(off + i) }).collect();
                let started_at_return: Vec<u64> = (0..=n).map(|i| calls[off + i].load(Relaxed)).collect();
                std::thread::sleep(std::time::Duration::from_millis(40));
                for i in 0..=n {
                    let started_later = calls[off + i].load(Relaxed);
                    let finished = done_at_return[i] == token(b, i);
                    if started_at_return[i] != 0 && !finished {
                        online_violation(11, b as u64, i as u64, "broadcast left by a panic while a call it started was still running");
                    }
                    if started_later != started_at_return[i] {
                        online_violation(12, b as u64, i as u64, "a call of the broadcast started after the broadcast was left");
                    }
                    if r.is_ok() && started_later != 1 {
                        online_violation(5, b as u64, started_later, "call count != 1 at return");
                    }
                    // make the bookkeeping below hold for this broadcast whatever happened
                    calls[off + i].store(1, Relaxed);
                    unsafe { *cells.cell(off + i) = token(b, i) };
                }
                let _ = started_before;
                sf_lines.lock().unwrap().push(format!("SF {} unwound={} started={:?}", b, r.is_err() as u8, started_at_return));
                let tc = pool.thread_count();
                tc_line.lock().unwrap().push((b, tc));
                continue;
            }
            // State that lives in this frame exactly as long as the broadcast's task block.
            let marker: [u64; 4] = [token(b, 0), !token(b, 0), seed, b as u64];
            let marker_ref = &marker;
            let cells_ref = &cells;
            let calls_ref = &calls;
            let panics_ref = &panics;
            let task = move |index: usize| -> u64 {
                let k = evlog::kidx();
                if k >= 1 && k < 0xFFFE {
                    install_exit_guard();
                }
                evlog::log(evlog::TASK_BEGIN, b as u64, index as u64, 0);
                if index > n {
                    online_violation(1, b as u64, index as u64, "index beyond the requested thread count");
                    return 0;
                }
                let m0 = unsafe { std::ptr::read_volatile(&marker_ref[0]) };
                let prev = calls_ref[off + index].fetch_add(1, Relaxed);
                if prev != 0 {
                    online_violation(2, b as u64, index as u64, "task called twice for one index");
                }
                let r = rng::mix3(seed, b as u64, index as u64);
                match dmode {
                    1 => {
                        if index == 0 {
                            delay(3, damount)
                        }
                    }
                    2 => {
                        if index != 0 {
                            delay(3, damount)
                        }
                    }
                    3 => delay(r % 4, r % (damount + 1)),
                    4 => {
                        if index as u64 == 1 + r % (n.max(1) as u64) {
                            delay(3, damount)
                        }
                    }
                    5 => {
                        // every pooled call waits until all pooled calls of this broadcast have begun, then a little longer
                        if index != 0 {
                            STARTED[b % 64].fetch_add(1, SeqCst);
                            let t0 = std::time::Instant::now();
                            while (STARTED[b % 64].load(SeqCst) as usize) < n && t0.elapsed().as_secs() < 20 {
                                std::thread::yield_now();
                            }
                            delay(3, damount)
                        }
                    }
                    _ => {}
                }
                // plain write, read back by the caller after the broadcast returned
                unsafe { *cells_ref.cell(off + index) = token(b, index) };
                let m1 = unsafe { std::ptr::read_volatile(&marker_ref[1]) };
                if m0 != token(b, 0) || m1 != !token(b, 0) {
                    online_violation(3, b as u64, index as u64, "task saw a dead / foreign task block");
                }
                let do_panic = panics_ref.iter().any(|&(pb, pi)| pb == b && pi == index);
                evlog::log(evlog::TASK_END, b as u64, index as u64, do_panic as u64);
                if do_panic {
                    if (bomb && index == 0) || (wbomb && index != 0) {
                        if wbomb {
                            eprintln!("WBOMB b={b} index={index}");
                        }
                        std::panic::panic_any(Bomb);
                    }
                    panic!("injected task panic b={b} index={index}");
                }
                token(b, index)
            };
            let key: u128 = ((seed as u128) << 64) | (b as u128) | (1u128 << 127);
            let pad = Padded { v: [token(b, 0), !token(b, 0), seed, b as u64, 1, 2, 3, 4] };
            let inner_task = task;
            let task_oa = move |index: usize| -> u64 {
                let task = inner_task;
                {
                    let k = unsafe { std::ptr::read_volatile(&key) };
                    let p0 = unsafe { std::ptr::read_volatile(&pad.v[0]) };
                    let p1 = unsafe { std::ptr::read_volatile(&pad.v[1]) };
                    if k != (((seed as u128) << 64) | (b as u128) | (1u128 << 127)) || p0 != token(b, 0) || p1 != !token(b, 0) {
                        online_violation(10, b as u64, index as u64, "task did not see the state that was moved into it");
                        return 0;
                    }
                }
                task(index)
            };
            evlog::log(evlog::BCAST_CALL, b as u64, n as u64, 0);
            if par_extend {
                let mut fresh: Vec<Option<u64>> = Vec::new();
                let results: &mut Vec<Option<u64>> = if reuse_vec {
                    reused.clear();
                    &mut reused
                } else {
                    &mut fresh
                };
                if b % 2 == 1 {
                    results.push(Some(7)); // pre-existing element must be kept
                }
                let pre = results.len();
                let unwound = if oalign { do_par_extend(&pool, results, n, bomb || wbomb, task_oa) } else { do_par_extend(&pool, results, n, bomb || wbomb, task) };
                evlog::log(evlog::BCAST_RETURN, b as u64, n as u64, unwound as u64);
                let shown: Vec<String> = results[pre..]
                    .iter()
                    .map(|r| match r {
                        Some(v) => format!("{}", v & 0xFFFFF),
                        None => "-".to_owned(),
                    })
                    .collect();
                if pre == 1 && results[0] != Some(7) {
                    online_violation(7, b as u64, 0, "par_extend clobbered an existing element");
                }
                if results.len() != pre + n + 1 {
                    online_violation(8, b as u64, results.len() as u64, "par_extend produced a wrong number of results");
                }
                for (i, r) in results[pre..].iter().enumerate() {
                    let panicked = panics.iter().any(|&(pb, pi)| pb == b && pi == i);
                    let ok = match r {
                        None => panicked,
                        Some(v) => !panicked && *v == token(b, i),
                    };
                    if !ok {
                        online_violation(9, b as u64, i as u64, "par_extend result misplaced / wrong for a panicked call");
                    }
                }
                pe_lines.lock().unwrap().push(format!("PE {} {}", b, shown.join(",")));
            } else {
                let unwound = if oalign { do_broadcast(&pool, n, bomb || wbomb, task_oa) } else { do_broadcast(&pool, n, bomb || wbomb, task) };
                evlog::log(evlog::BCAST_RETURN, b as u64, n as u64, unwound as u64);
            }
            // Everything the calls wrote must be visible now.
            for index in 0..=n {
                let seen = unsafe { *cells.cell(off + index) };
                if seen != token(b, index) {
                    online_violation(4, b as u64, index as u64, "effect of a call not visible after the broadcast returned");
                }
                let cnt = calls[off + index].load(Relaxed);
                if cnt != 1 {
                    online_violation(5, b as u64, cnt, "call count != 1 at return");
                }
            }
            let tc = pool.thread_count();
            tc_line.lock().unwrap().push((b, tc));
            std::hint::black_box(&marker);
            scribble(0xDEAD_0000_0000_0000 | b as u64);
        }
        };
        if callers == 1 {
            run_segment(0..hist.len());
        } else {
            let per = hist.len().div_ceil(callers).max(1);
            let segments: Vec<std::ops::Range<usize>> =
                (0..callers).map(|i| (i * per).min(hist.len())..((i + 1) * per).min(hist.len())).filter(|r| !r.is_empty()).collect();
            std::thread::scope(|scope| {
                if concurrent {
                    // the callers leave a spin rendezvous together, so that their first broadcasts hit the pool at the same moment
                    static READY: std::sync::atomic::AtomicUsize = std::sync::atomic::AtomicUsize::new(0);
                    READY.store(0, SeqCst);
                    let ready = &READY;
                    let total = segments.len();
                    for seg in segments {
                        let f = &run_segment;
                        scope.spawn(move || {
                            ready.fetch_add(1, SeqCst);
                            while ready.load(SeqCst) < total {
                                std::hint::spin_loop();
                            }
                            f(seg)
                        });
                    }
                } else {
                    for seg in segments {
                        let f = &run_segment;
                        scope.spawn(move || f(seg)).join().expect("caller thread");
                    }
                }
            });
        }
        // pool dropped here
    }
    evlog::log(evlog::NOTE, 1, 0, 0); // pool dropped
    let workers = GUARDS.load(SeqCst) - guards0;
    // Bounded wait for the workers to exit.
    let mut waited = 0u64;
    loop {
        let exited = EXITS.load(SeqCst) - exits0;
        if exited >= workers {
            break;
        }
        waited += 1;
        if cfg!(miri) {
            if waited > 20_000 {
                break;
            }
            std::thread::yield_now();
        } else {
            if waited > 4_000 {
                break;
            }
            std::thread::sleep(std::time::Duration::from_micros(500));
        }
    }
    let exited = EXITS.load(SeqCst) - exits0;
    if exited < workers {
        online_violation(6, workers, exited, "worker threads still alive after the pool was dropped");
    }
    evlog::log(evlog::RUN_END, 0, 0, 0);
    evlog::enable(false);
    let v1 = ONLINE_VIOLATIONS.load(SeqCst);

    let _ = writeln!(out, "RUN {id} ok");
    let _ = writeln!(out, "CFG {line}");
    let _ = writeln!(out, "ONLINE {}", v1 - v0);
    let _ = writeln!(out, "WORKERS {workers} EXITED {exited} CALLER {main_tid}");
    let mut tcs = tc_line.lock().unwrap().clone();
    tcs.sort();
    let _ = writeln!(out, "TC {}", tcs.iter().map(|x| x.1.to_string()).collect::<Vec<_>>().join(","));
    for l in pe_lines.lock().unwrap().iter() {
        let _ = writeln!(out, "{l}");
    }
    for l in sf_lines.lock().unwrap().iter() {
        let _ = writeln!(out, "{l}");
    }
    if c.u64("dump", 1) != 0 {
        evlog::dump(out);
    }
    let _ = writeln!(out, "END {id}");
    let _ = out.flush();
}

/// `par_extend` with the given task; with `catch`, an unwinding exit is caught and reported.
fn do_par_extend<F: Fn(usize) -> u64 + Sync>(pool: &Pool, results: &mut Vec<Option<u64>>, n: usize, catch: bool, task: F) -> bool {
    if catch {
        std::panic::catch_unwind(std::panic::AssertUnwindSafe(|| pool.par_extend(results, n, task))).is_err()
    } else {
        pool.par_extend(results, n, task);
        false
    }
}

/// `broadcast` with a closure that owns the given task.
fn do_broadcast<F: Fn(usize) -> u64 + Sync>(pool: &Pool, n: usize, catch: bool, task: F) -> bool {
    if catch {
        std::panic::catch_unwind(std::panic::AssertUnwindSafe(|| {
            pool.broadcast(n, move |i| {
                task(i);
            })
        }))
        .is_err()
    } else {
        pool.broadcast(n, move |i| {
            task(i);
        });
        false
    }
}

extern "C" {
    fn getrlimit(resource: i32, rlim: *mut [u64; 2]) -> i32;
    fn setrlimit(resource: i32, rlim: *const [u64; 2]) -> i32;
}
const RLIMIT_AS: i32 = 9;

/// Lowers the soft address-space limit to the current size plus a little headroom (enough for the panic machinery, not for a
/// thread stack). Returns the old limit.
fn lower_address_space_limit() -> [u64; 2] {
    let mut old = [0u64; 2];
    unsafe { getrlimit(RLIMIT_AS, &mut old) };
    let statm = std::fs::read_to_string("/proc/self/statm").unwrap_or_default();
    let pages: u64 = statm.split_whitespace().next().and_then(|x| x.parse().ok()).unwrap_or(0);
    if pages > 0 {
        let new = [pages * 4096 + (768 << 10), old[1]];
        unsafe { setrlimit(RLIMIT_AS, &new) };
    }
    old
}

fn restore_address_space_limit(old: [u64; 2]) {
    unsafe { setrlimit(RLIMIT_AS, &old) };
}

/// Over-aligned closure state.
#[repr(align(64))]
#[derive(Clone, Copy)]
struct Padded {
    v: [u64; 8],
}

/// Panic payload whose destructor panics (unless the thread is already unwinding).
static STARTED: [AtomicU64; 64] = [const { AtomicU64::new(0) }; 64];

struct Bomb;

impl Drop for Bomb {
    fn drop(&mut self) {
        if !std::thread::panicking() {
            panic!("panic payload destructor panicked");
        }
    }
}

fn main() {
    let args: Vec<String> = std::env::args().skip(1).collect();
    let mut lines: Vec<String> = Vec::new();
    let mut cap: usize = if cfg!(miri) { 1 << 14 } else { 1 << 21 };
    let mut i = 0;
    while i < args.len() {
        match args[i].as_str() {
            "--file" => {
                lines.extend(cfg::read_lines(&args[i + 1]));
                i += 2;
            }
            "--line" => {
                lines.push(args[i + 1].clone());
                i += 2;
            }
            "--cap" => {
                cap = args[i + 1].parse().unwrap();
                i += 2;
            }
            "--noop" => {
                i += 1;
            }
            other => panic!("unknown argument {other}"),
        }
    }
    evlog::init(cap);
    failpoint::install();
    let default_hook = std::panic::take_hook();
    std::panic::set_hook(Box::new(move |info| {
        if !evlog::enabled() {
            default_hook(info);
        }
    }));
    let stdout = std::io::stdout();
    let mut out = std::io::BufWriter::with_capacity(1 << 20, stdout.lock());
    for line in &lines {
        run_history(&mut out, line);
    }
    let _ = writeln!(out, "DONE {}", lines.len());
    let _ = out.flush();
    if ONLINE_VIOLATIONS.load(SeqCst) != 0 {
        std::process::exit(3);
    }
}
