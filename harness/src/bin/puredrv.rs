//! Pure-function driver (C11, C16, C18): evaluates crate-private conversions, formatters and
//! comparators of divan on inputs chosen by the python side, one query per line.

use std::{
    io::{BufRead, Write},
    panic::{catch_unwind, AssertUnwindSafe},
    time::Duration,
};

use divan::verif;
use vharness::clock;

fn unhex(s: &str) -> String {
    let bytes: Vec<u8> = (0..s.len() / 2).map(|i| u8::from_str_radix(&s[2 * i..2 * i + 2], 16).unwrap()).collect();
    String::from_utf8(bytes).expect("utf8")
}

fn ord(o: std::cmp::Ordering) -> i32 {
    match o {
        std::cmp::Ordering::Less => -1,
        std::cmp::Ordering::Equal => 0,
        std::cmp::Ordering::Greater => 1,
    }
}

fn guarded(f: impl FnOnce() -> String) -> String {
    match catch_unwind(AssertUnwindSafe(f)) {
        Ok(s) => s,
        Err(e) => {
            let msg = if let Some(s) = e.downcast_ref::<&str>() {
                s.to_string()
            } else if let Some(s) = e.downcast_ref::<String>() {
                s.clone()
            } else {
                "?".into()
            };
            format!("PANIC {}", msg.replace('\n', " "))
        }
    }
}

fn answer(line: &str) -> String {
    let mut it = line.split(' ');
    let cmd = it.next().unwrap_or("");
    match cmd {
        "D" => {
            let b: u64 = it.next().unwrap().parse().unwrap();
            let a: u64 = it.next().unwrap().parse().unwrap();
            let f: u64 = it.next().unwrap().parse().unwrap();
            // both layers: the raw counter difference and the tagged wrapper the sample loop uses
            guarded(|| {
                let raw = verif::tsc_duration_since(b, a, f);
                let wrapped = verif::timestamp_duration_since(b, a, f);
                if raw == wrapped {
                    raw.to_string()
                } else {
                    format!("TscTimestamp::duration_since={raw} but Timestamp::duration_since={wrapped}")
                }
            })
        }
        "O" => {
            // the OS-timer arm: Instants b and a nanoseconds after one fixed instant
            let b: u64 = it.next().unwrap().parse().unwrap();
            let a: u64 = it.next().unwrap().parse().unwrap();
            guarded(|| verif::os_timestamp_duration_since(b, a).to_string())
        }
        "F" => {
            let secs: u64 = it.next().unwrap().parse().unwrap();
            let nanos: u32 = it.next().unwrap().parse().unwrap();
            guarded(|| verif::fine_from_duration(Duration::new(secs, nanos)).to_string())
        }
        "P" => {
            let freq: u64 = it.next().unwrap().parse().unwrap();
            let delta: u64 = it.next().unwrap().parse().unwrap();
            let q: u64 = it.next().unwrap().parse().unwrap();
            let base: u64 = it.next().map(|x| x.parse().unwrap()).unwrap_or(1000);
            // optional: after <after> reads every read costs <late_delta> ticks
            let after: u64 = it.next().map(|x| x.parse().unwrap()).unwrap_or(0);
            let late_delta: u64 = it.next().map(|x| x.parse().unwrap()).unwrap_or(0);
            clock::configure(delta, q);
            clock::configure_late(after, late_delta);
            clock::new_epoch(base);
            clock::install(freq);
            let r = guarded(|| verif::tsc_timer_precision(freq).to_string());
            clock::remove();
            clock::configure_late(0, 0);
            r
        }
        "T" => {
            let p: u128 = it.next().unwrap().parse().unwrap();
            guarded(|| verif::fmt_duration(p))
        }
        "H" => {
            let kind: usize = it.next().unwrap().parse().unwrap();
            let count: u64 = it.next().unwrap().parse().unwrap();
            let p: u128 = it.next().unwrap().parse().unwrap();
            let binary = it.next().unwrap() == "1";
            guarded(|| verif::fmt_throughput(kind, count, p, binary))
        }
        "B" => {
            let bits = u64::from_str_radix(it.next().unwrap(), 16).unwrap();
            let binary = it.next().unwrap() == "1";
            guarded(|| verif::fmt_bytes(f64::from_bits(bits), binary))
        }
        "X" => {
            let bits = u64::from_str_radix(it.next().unwrap(), 16).unwrap();
            let sig: usize = it.next().unwrap().parse().unwrap();
            guarded(|| verif::fmt_f64(f64::from_bits(bits), sig))
        }
        "N" => {
            let a = unhex(it.next().unwrap_or(""));
            let b = unhex(it.next().unwrap_or(""));
            guarded(|| ord(verif::natural_cmp(&a, &b)).to_string())
        }
        "A" => {
            // A <attr> <i> <j> <hex names...>: compares names[i] with names[j] inside one slice
            let attr: usize = it.next().unwrap().parse().unwrap();
            let i: usize = it.next().unwrap().parse().unwrap();
            let j: usize = it.next().unwrap().parse().unwrap();
            let names: Vec<String> = it.map(unhex).collect();
            let refs: Vec<&str> = names.iter().map(|s| s.as_str()).collect();
            guarded(|| ord(verif::cmp_arg_names(attr, &refs[i], &refs[j])).to_string())
        }
        "S" => {
            // S <attr> <reverse> <hex names...>: sorts the whole list the way the tree does; prints the permutation
            let attr: usize = it.next().unwrap().parse().unwrap();
            let rev = it.next().unwrap() == "1";
            let names: Vec<String> = it.map(unhex).collect();
            let refs: Vec<&str> = names.iter().map(|s| s.as_str()).collect();
            guarded(|| {
                let mut idx: Vec<&&str> = refs.iter().collect();
                idx.sort_by(|a, b| {
                    let o = verif::cmp_arg_names(attr, a, b);
                    if rev {
                        o.reverse()
                    } else {
                        o
                    }
                });
                let base = refs.as_ptr() as usize;
                idx.iter()
                    .map(|p| (((*p) as *const &str as usize - base) / std::mem::size_of::<&str>()).to_string())
                    .collect::<Vec<_>>()
                    .join(",")
            })
        }
        "M" => {
            // M <hex path> <n> then n triples: <regex?> <inclusive?> <hex pattern>
            let path = unhex(it.next().unwrap_or(""));
            let n: usize = it.next().unwrap().parse().unwrap();
            let mut probe = verif::FilterProbe::new();
            let mut ok = true;
            for _ in 0..n {
                let regex = it.next().unwrap() == "1";
                let incl = it.next().unwrap() == "1";
                let pat = unhex(it.next().unwrap_or(""));
                ok &= probe.add(&pat, regex, incl);
            }
            if !ok {
                "BADREGEX".to_owned()
            } else {
                guarded(|| (probe.is_match(&path) as u8).to_string())
            }
        }
        "K" => std::thread::available_parallelism().map(|n| n.get()).unwrap_or(1).to_string(),
        "R" => {
            // R <kind>: BenchArgs probe (type-erased argument slice): names and the value each index receives
            let kind = it.next().unwrap_or("i64").to_owned();
            guarded(move || args_probe(&kind))
        }
        _ => "?".to_owned(),
    }
}

static RECEIVED: std::sync::Mutex<Vec<String>> = std::sync::Mutex::new(Vec::new());

#[derive(Debug, Clone, Copy)]
struct Zst;

struct TwoLines(u32);

impl std::fmt::Display for TwoLines {
    fn fmt(&self, f: &mut std::fmt::Formatter<'_>) -> std::fmt::Result {
        write!(f, "w={}\nh={}", self.0, self.0 * 2)
    }
}

fn args_probe(kind: &str) -> String {
    use divan::{
        verif::{args_bench, args_names, run_bencher, LoopConfig},
        Bencher,
        __private::{BenchArgs, BenchOptions},
    };
    static A_I64: BenchArgs = BenchArgs::new();
    static A_SLICE: BenchArgs = BenchArgs::new();
    static A_STRING: BenchArgs = BenchArgs::new();
    static A_ZST: BenchArgs = BenchArgs::new();
    static A_EMPTY: BenchArgs = BenchArgs::new();
    RECEIVED.lock().unwrap().clear();
    let runner = match kind {
        "i64" => A_I64.runner(
            || vec![10i64, 9, -3, 100],
            |a| a.to_string(),
            |b: Bencher, a: &i64| {
                RECEIVED.lock().unwrap().push(a.to_string());
                b.bench_local(|| ());
            },
        ),
        "strslice" => {
            static ITEMS: &[&str] = &["b", "a", "c10"];
            A_SLICE.runner(
                || ITEMS,
                |a| a.to_string(),
                |b: Bencher, a: &&&str| {
                    RECEIVED.lock().unwrap().push(a.to_string());
                    b.bench_local(|| ());
                },
            )
        }
        "string" => A_STRING.runner(
            || vec!["x".to_owned(), "yy".to_owned()],
            |a| a.to_string(),
            |b: Bencher, a: &String| {
                RECEIVED.lock().unwrap().push(a.clone());
                b.bench_local(|| ());
            },
        ),
        // renderings with unusual characters in them (a line break, a tab, the separator of paths): every label is still the
        // rendering of the argument at its own position
        "chars" => {
            static A_CHARS: BenchArgs = BenchArgs::new();
            A_CHARS.runner(
                || ['a', '\n', 'b', ':', '\t', 'c', '|', ' ', 'd'],
                |a| a.to_string(),
                |b: Bencher, a: &char| {
                    RECEIVED.lock().unwrap().push(a.to_string());
                    b.bench_local(|| ());
                },
            )
        }
        "revstr" => {
            static A_REV: BenchArgs = BenchArgs::new();
            static TABLE: &[&str] = &["one", "two\nlines", "", "::", "four"];
            A_REV.runner(
                || TABLE.iter().rev(),
                |a| a.to_string(),
                |b: Bencher, a: &&&str| {
                    RECEIVED.lock().unwrap().push(a.to_string());
                    b.bench_local(|| ());
                },
            )
        }
        "display" => {
            static A_DISP: BenchArgs = BenchArgs::new();
            A_DISP.runner(
                || vec![TwoLines(1), TwoLines(22), TwoLines(3)],
                |a| a.to_string(),
                |b: Bencher, a: &TwoLines| {
                    RECEIVED.lock().unwrap().push(a.to_string());
                    b.bench_local(|| ());
                },
            )
        }
        "zst" => A_ZST.runner(
            || [Zst, Zst, Zst],
            |a| format!("{a:?}"),
            |b: Bencher, a: &Zst| {
                RECEIVED.lock().unwrap().push(format!("{a:?}"));
                b.bench_local(|| ());
            },
        ),
        _ => A_EMPTY.runner(
            || Vec::<u8>::new(),
            |a| a.to_string(),
            |b: Bencher, a: &u8| {
                RECEIVED.lock().unwrap().push(a.to_string());
                b.bench_local(|| ());
            },
        ),
    };
    let names: Vec<String> = args_names(&runner).iter().map(|s| s.to_string()).collect();
    let cfg = LoopConfig { test: true, tsc: false, threads: 1, options: BenchOptions::default() };
    // visit in a scrambled order
    let n = names.len();
    let mut order: Vec<usize> = (0..n).rev().collect();
    order.rotate_left(n.min(1));
    for &i in &order {
        run_bencher(&cfg, &mut |b| args_bench(&runner, b, i));
    }
    let got = RECEIVED.lock().unwrap().clone();
    let want: Vec<String> = order.iter().map(|&i| names[i].clone()).collect();
    let show = |v: &[String]| v.iter().map(|s| format!("{s:?}")).collect::<Vec<_>>().join(",");
    format!("names={} received={} match={}", show(&names), show(&got), (got == want) as u8)
}

fn main() {
    let args: Vec<String> = std::env::args().skip(1).collect();
    std::panic::set_hook(Box::new(|_| {}));
    let stdout = std::io::stdout();
    let mut out = std::io::BufWriter::with_capacity(1 << 20, stdout.lock());
    let mut i = 0;
    let mut n = 0usize;
    let mut from_file: Option<String> = None;
    while i < args.len() {
        match args[i].as_str() {
            "--file" => {
                from_file = Some(args[i + 1].clone());
                i += 2;
            }
            "--line" | "--q" => {
                let _ = writeln!(out, "{}", answer(&args[i + 1]));
                n += 1;
                i += 2;
            }
            "--noop" => {
                i += 1;
            }
            other => panic!("unknown argument {other}"),
        }
    }
    if let Some(path) = from_file {
        let reader: Box<dyn BufRead> = if path == "-" {
            Box::new(std::io::BufReader::new(std::io::stdin()))
        } else {
            Box::new(std::io::BufReader::new(std::fs::File::open(&path).expect("open")))
        };
        for line in reader.lines() {
            let line = line.unwrap();
            if line.is_empty() {
                continue;
            }
            let _ = writeln!(out, "{}", answer(&line));
            n += 1;
        }
    }
    let _ = writeln!(out, "DONE {n}");
    let _ = out.flush();
}
