//! Synthetic-registry runner (C13 C14 C15 C16 C17 C20, end-to-end slices of C03 C05).
//!
//! Builds an arbitrary benchmark registry at run time through divan's own doc-hidden
//! registration API (the one the attribute macros expand to), then runs the ordinary `Divan`
//! runner under the given builder calls / CLI arguments / environment, optionally under the
//! virtual clock. Benchmark bodies write an invocation log that is printed after divan's own
//! output.
//!
//! usage: VERIF_SPEC=<spec file> treedrv [<divan CLI arguments>]

use std::{
    cell::Cell,
    panic::{catch_unwind, AssertUnwindSafe},
    sync::{
        atomic::{AtomicU64, Ordering::*},
        LazyLock, Mutex, OnceLock,
    },
    time::Duration,
};

use divan::{
    counter::{BytesCount, BytesFormat, CharsCount, CyclesCount, ItemsCount},
    AllocProfiler, Bencher, Divan,
    __private::{
        BenchArgs, BenchEntry, BenchEntryRunner, BenchOptions, EntryConst, EntryList, EntryLocation, EntryMeta, EntryType,
        GenericBenchEntry, GroupEntry, BENCH_ENTRIES, GROUP_ENTRIES,
    },
};
use vharness::{clock, evlog};

mod slots;
use slots::*;

#[global_allocator]
static ALLOC: AllocProfiler = AllocProfiler::system();

// ---------------------------------------------------------------------------
// Spec
// ---------------------------------------------------------------------------

#[derive(Clone, Debug, Default)]
struct Opts {
    present: bool,
    sample_count: Option<u32>,
    sample_size: Option<u32>,
    threads: Option<Vec<usize>>,
    min_ns: Option<u128>,
    max_ns: Option<u128>,
    skip_ext: Option<bool>,
    ignore: Option<bool>,
    counters: [Option<u64>; 4],
}

#[derive(Clone, Debug, Default)]
struct Behaviour {
    cost: u64,
    step: u64,
    modu: u64,
    alloc_n: u64,
    alloc_sz: u64,
    /// grow the first block by this many bytes and shrink it back (0 = no reallocation)
    realloc_by: u64,
    /// allocate only in calls whose ordinal j has j % modu == alloc_res (-1 = in every call)
    alloc_res: i64,
    /// ticks charged by the input generator of mode 2 (outside the timed section)
    gen_cost: u64,
    bcounters: Vec<(u8, u64)>,
    /// 0 bench, 1 bench_local, 2 with_inputs+bench_values, 3 no bench call, 4 bench_refs with input counter (items = id)
    mode: u8,
}

#[derive(Clone, Debug)]
enum ArgList {
    I64(Vec<i64>),
    U64(Vec<u64>),
    F64(Vec<f64>),
    Str(Vec<String>),
    Char(Vec<char>),
    Dbg(Vec<Pt>),
}

#[derive(Clone, Copy, Debug, PartialEq)]
struct Pt(i32, i32);

#[derive(Default)]
struct Registry {
    opts: Vec<Opts>,
    behaviours: Vec<Behaviour>, // by bid
    plain_bid: Vec<usize>,      // plain slot -> bid
    args_bid: Vec<usize>,       // args slot -> bid
    args_list: Vec<ArgList>,    // args slot -> list
    gen_slot: Vec<(usize, String, String)>, // generic slot -> (bid, type label, const label)
}

static REG: OnceLock<Registry> = OnceLock::new();
static LOG: Mutex<Vec<String>> = Mutex::new(Vec::new());
static ARGS: [BenchArgs; N_ARGS] = [const { BenchArgs::new() }; N_ARGS];
/// One counter per (benchmark, thread), each on a cache line of its own (billions of calls from 16 threads must not share lines).
#[repr(align(64))]
struct Padded(AtomicU64);
static CALLS: [[Padded; 72]; 256] = [const { [const { Padded(AtomicU64::new(0)) }; 72] }; 256];
static RUN_SEQ: AtomicU64 = AtomicU64::new(0);

// Phase-order monitor for bodies that generate inputs (mode 2): every generator exit and every call entry takes the next slot of one
// global sequence (the slot index is the order; lock-free, allocation-free). Judged at the end of each run: in no round may a thread
// enter its first call before every thread has left its last generator call (C08 through the real runner).
const ORD_CAP: usize = 1 << 16;
static ORD_NEXT: std::sync::atomic::AtomicUsize = std::sync::atomic::AtomicUsize::new(0);
static ORD_BUF: [std::sync::atomic::AtomicU32; ORD_CAP] = [const { std::sync::atomic::AtomicU32::new(0) }; ORD_CAP];

#[inline]
fn ord_event(kind: u32) {
    let i = ORD_NEXT.fetch_add(1, SeqCst);
    if i < ORD_CAP {
        ORD_BUF[i].store(((kidx() as u32 + 1) << 8) | kind, SeqCst);
    }
}

/// (rounds judged, rounds in which a call began before another thread's generation had ended, threads seen)
fn ord_judge() -> (usize, usize, usize) {
    let n = ORD_NEXT.load(SeqCst).min(ORD_CAP);
    let mut per: std::collections::BTreeMap<u32, Vec<(usize, u32)>> = std::collections::BTreeMap::new();
    for (i, slot) in ORD_BUF.iter().enumerate().take(n) {
        let v = slot.load(SeqCst);
        if v != 0 {
            per.entry(v >> 8).or_default().push((i, v & 0xFF));
        }
    }
    // per thread: rounds = (seq of last generator exit, seq of first call) of each "gen+ call+" block
    let mut rounds: Vec<Vec<(usize, usize)>> = Vec::new();
    for evs in per.values() {
        let mut r = Vec::new();
        let mut last_gen: Option<usize> = None;
        let mut in_calls = false;
        for &(seq, kind) in evs {
            if kind == 1 {
                last_gen = Some(seq);
                in_calls = false;
            } else if !in_calls {
                if let Some(g) = last_gen {
                    r.push((g, seq));
                }
                in_calls = true;
            }
        }
        rounds.push(r);
    }
    let threads = rounds.len();
    if threads < 2 || n >= ORD_CAP {
        return (0, 0, threads);
    }
    let nr = rounds.iter().map(|r| r.len()).min().unwrap_or(0);
    if rounds.iter().any(|r| r.len() != nr) {
        return (0, 0, threads); // ragged (a panic, a thread that made no call): not judged here
    }
    let mut bad = 0;
    for i in 0..nr {
        let last_gen = rounds.iter().map(|r| r[i].0).max().unwrap();
        let first_call = rounds.iter().map(|r| r[i].1).min().unwrap();
        if first_call < last_gen {
            bad += 1;
        }
    }
    (nr, bad, threads)
}

thread_local! {
    static ORD: Cell<(u64, u64)> = const { Cell::new((0, 0)) };
    static GENS: Cell<(u64, u64)> = const { Cell::new((0, 0)) };
}

fn reg() -> &'static Registry {
    REG.get().expect("registry")
}

fn log_line(s: String) {
    LOG.lock().unwrap_or_else(|e| e.into_inner()).push(s);
}

fn unhex(s: &str) -> String {
    if s == "-" {
        return String::new();
    }
    let bytes: Vec<u8> = (0..s.len() / 2).map(|i| u8::from_str_radix(&s[2 * i..2 * i + 2], 16).unwrap()).collect();
    String::from_utf8(bytes).expect("utf8")
}

fn hex(s: &str) -> String {
    if s.is_empty() {
        return "-".into();
    }
    s.bytes().map(|b| format!("{b:02x}")).collect()
}

fn leak(s: String) -> &'static str {
    Box::leak(s.into_boxed_str())
}

fn parse_opts(s: &str) -> Opts {
    let mut o = Opts::default();
    if s == "-" {
        return o;
    }
    o.present = true;
    if s == "+" {
        return o;
    }
    for kv in s.split(';').filter(|x| !x.is_empty()) {
        let (k, v) = kv.split_once(':').expect("opt");
        match k {
            "sc" => o.sample_count = Some(v.parse().unwrap()),
            "ss" => o.sample_size = Some(v.parse().unwrap()),
            "th" => o.threads = Some(v.split(',').filter(|x| !x.is_empty()).map(|x| x.parse().unwrap()).collect()),
            // the conversions the attribute macro applies to non-literal `threads = ...` values
            "ths" => o.threads = Some(divan::__private::IntoThreads::<0>::into_threads(v.parse::<usize>().unwrap()).into_owned()),
            "thb" => o.threads = Some(divan::__private::IntoThreads::<0>::into_threads(v == "1").into_owned()),
            "thi" => {
                let list: Vec<usize> = v.split(',').filter(|x| !x.is_empty()).map(|x| x.parse().unwrap()).collect();
                o.threads = Some(divan::__private::IntoThreads::<1>::into_threads(list).into_owned())
            }
            "mt" => o.min_ns = Some(v.parse().unwrap()),
            "xt" => o.max_ns = Some(v.parse().unwrap()),
            "sk" => o.skip_ext = Some(v == "1"),
            "ig" => o.ignore = Some(v == "1"),
            "c0" => o.counters[0] = Some(v.parse().unwrap()),
            "c1" => o.counters[1] = Some(v.parse().unwrap()),
            "c2" => o.counters[2] = Some(v.parse().unwrap()),
            "c3" => o.counters[3] = Some(v.parse().unwrap()),
            other => panic!("unknown option key {other}"),
        }
    }
    o
}

fn parse_beh(s: &str) -> Behaviour {
    let mut b = Behaviour { cost: 10, modu: 1, alloc_res: -1, ..Default::default() };
    for kv in s.split(';').filter(|x| !x.is_empty() && *x != "-") {
        let (k, v) = kv.split_once(':').expect("beh");
        match k {
            "cost" => b.cost = v.parse().unwrap(),
            "step" => b.step = v.parse().unwrap(),
            "mod" => b.modu = v.parse::<u64>().unwrap().max(1),
            "an" => b.alloc_n = v.parse().unwrap(),
            "az" => b.alloc_sz = v.parse().unwrap(),
            "rg" => b.realloc_by = v.parse().unwrap(),
            "ar" => b.alloc_res = v.parse().unwrap(),
            "gc" => b.gen_cost = v.parse().unwrap(),
            "mode" => b.mode = v.parse().unwrap(),
            "bc" => {
                for p in v.split(',').filter(|x| !x.is_empty()) {
                    let (a, c) = p.split_once('=').unwrap();
                    b.bcounters.push((a.parse().unwrap(), c.parse().unwrap()));
                }
            }
            other => panic!("unknown behaviour key {other}"),
        }
    }
    b
}

fn duration_from_nanos(n: u128) -> Duration {
    if n >= (u64::MAX as u128) * 1_000_000_000 {
        Duration::MAX
    } else {
        Duration::new((n / 1_000_000_000) as u64, (n % 1_000_000_000) as u32)
    }
}

fn build_options(o: &Opts) -> BenchOptions<'static> {
    let mut b = BenchOptions::default();
    b.sample_count = o.sample_count;
    b.sample_size = o.sample_size;
    if let Some(t) = &o.threads {
        b.threads = Some(std::borrow::Cow::Owned(t.clone()));
    }
    b.min_time = o.min_ns.map(duration_from_nanos);
    b.max_time = o.max_ns.map(duration_from_nanos);
    b.skip_ext_time = o.skip_ext;
    b.ignore = o.ignore;
    if let Some(c) = o.counters[0] {
        b.counters.insert(BytesCount::new(c));
    }
    if let Some(c) = o.counters[1] {
        b.counters.insert(CharsCount::new(c));
    }
    if let Some(c) = o.counters[2] {
        b.counters.insert(CyclesCount::new(c));
    }
    if let Some(c) = o.counters[3] {
        b.counters.insert(ItemsCount::new(c));
    }
    b
}

// ---------------------------------------------------------------------------
// Slot functions
// ---------------------------------------------------------------------------

fn opts<const N: usize>() -> BenchOptions<'static> {
    build_options(&reg().opts[N])
}

fn kidx() -> usize {
    (evlog::kidx() as usize).min(71)
}

#[inline]
fn body_call(bid: usize) {
    let k = kidx();
    CALLS[bid][k].0.fetch_add(1, Relaxed);
    let beh = &reg().behaviours[bid];
    let run = RUN_SEQ.load(Relaxed);
    let j = ORD
        .try_with(|o| {
            let (r, n) = o.get();
            let n = if r == run { n } else { 0 };
            o.set((run, n + 1));
            n
        })
        .unwrap_or(0);
    clock::charge(beh.cost + beh.step * (j % beh.modu));
    if beh.alloc_n > 0 && (beh.alloc_res < 0 || (j % beh.modu) as i64 == beh.alloc_res) {
        // all blocks live at once, then all freed
        let mut blocks: [*mut u8; 8] = [std::ptr::null_mut(); 8];
        let n = (beh.alloc_n as usize).min(8);
        let layout = std::alloc::Layout::from_size_align(beh.alloc_sz.max(1) as usize, 8).unwrap();
        for b in blocks.iter_mut().take(n) {
            *b = unsafe { std::alloc::alloc(layout) };
            assert!(!b.is_null());
        }
        std::hint::black_box(&blocks);
        if beh.realloc_by > 0 {
            let grown = layout.size() + beh.realloc_by as usize;
            unsafe {
                blocks[0] = std::alloc::realloc(blocks[0], layout, grown);
                assert!(!blocks[0].is_null());
                blocks[0] = std::alloc::realloc(blocks[0], std::alloc::Layout::from_size_align(grown, 8).unwrap(), layout.size());
                assert!(!blocks[0].is_null());
            }
            std::hint::black_box(&blocks);
        }
        for b in blocks.iter().take(n) {
            unsafe { std::alloc::dealloc(*b, layout) };
        }
    }
}

fn run_body(bid: usize, label: &str, bencher: Bencher) {
    let beh = &reg().behaviours[bid];
    RUN_SEQ.fetch_add(1, SeqCst);
    for c in CALLS[bid].iter() {
        c.0.store(0, SeqCst);
    }
    log_line(format!("enter {bid} {label}"));
    ORD_NEXT.store(0, SeqCst);
    let mut bencher = bencher;
    for &(kind, value) in &beh.bcounters {
        bencher = match kind {
            0 => bencher.counter(BytesCount::new(value)),
            1 => bencher.counter(CharsCount::new(value)),
            2 => bencher.counter(CyclesCount::new(value)),
            _ => bencher.counter(ItemsCount::new(value)),
        };
    }
    match beh.mode {
        0 => bencher.bench(|| body_call(bid)),
        1 => bencher.bench_local(|| body_call(bid)),
        2 => {
            let gc = beh.gen_cost;
            bencher
                .with_inputs(move || {
                    clock::charge(gc);
                    // the first few generator calls of a run are slow (in real time) on the first pool thread: a round in which
                    // the others do not wait for it shows in the phase-order monitor
                    let g = GENS.try_with(|c| {
                        let (r, n) = c.get();
                        let run = RUN_SEQ.load(Relaxed);
                        let n = if r == run { n } else { 0 };
                        c.set((run, n + 1));
                        n
                    });
                    if kidx() == 1 && g.unwrap_or(99) < 6 {
                        std::thread::sleep(std::time::Duration::from_micros(150));
                    }
                    ord_event(1);
                    7u64
                })
                .bench_values(|_x| {
                    ord_event(2);
                    body_call(bid)
                })
        }
        4 => bencher.with_inputs(|| 12u64).count_inputs_as::<ItemsCount>().bench_refs(|_x| body_call(bid)),
        _ => drop(bencher),
    }
    let counts: Vec<String> = CALLS[bid]
        .iter()
        .enumerate()
        .filter_map(|(k, c)| {
            let v = c.0.load(SeqCst);
            (v > 0).then(|| format!("{k}:{v}"))
        })
        .collect();
    log_line(format!("run {bid} {label} {}", if counts.is_empty() { "-".to_owned() } else { counts.join(",") }));
    if beh.mode == 2 {
        let (rounds, bad, threads) = ord_judge();
        if threads >= 2 {
            log_line(format!("ord {bid} {threads} {rounds} {bad}"));
        }
    }
}

fn plain<const N: usize>(bencher: Bencher) {
    run_body(reg().plain_bid[N], "- - -", bencher);
}

fn generic<const N: usize>(bencher: Bencher) {
    let (bid, ty, cv) = &reg().gen_slot[N];
    run_body(*bid, &format!("- {} {}", hex(ty), hex(cv)), bencher);
}

macro_rules! args_fn {
    ($name:ident, $item:ty, $variant:ident, $make:expr, $render:expr) => {
        fn $name<const N: usize>() -> BenchEntryRunner {
            BenchEntryRunner::Args(|| {
                ARGS[N].runner(
                    || {
                        log_line(format!("args_eval {}", reg().args_bid[N]));
                        if let Ok(ms) = std::env::var("VERIF_ARGS_SLEEP_MS") {
                            std::thread::sleep(std::time::Duration::from_millis(ms.parse().unwrap_or(0)));
                        }
                        let list = match &reg().args_list[N] {
                            ArgList::$variant(v) => v.clone(),
                            _ => unreachable!(),
                        };
                        #[allow(clippy::redundant_closure_call)]
                        ($make)(list)
                    },
                    |a: &$item| ($render)(a),
                    |bencher: Bencher, a: &$item| {
                        let rendered: String = ($render)(a);
                        // an empty rendering is an argument too ("=" in the log; "-" stands for "no argument")
                        let shown = if rendered.is_empty() { "=".to_owned() } else { hex(&rendered) };
                        run_body(reg().args_bid[N], &format!("{shown} - -"), bencher);
                    },
                )
            })
        }
    };
}

args_fn!(args_i64, i64, I64, |v: Vec<i64>| v, |a: &i64| a.to_string());
args_fn!(args_u64, u64, U64, |v: Vec<u64>| v, |a: &u64| a.to_string());
args_fn!(args_f64, f64, F64, |v: Vec<f64>| v, |a: &f64| a.to_string());
args_fn!(args_string, String, Str, |v: Vec<String>| v, |a: &String| a.to_string());
args_fn!(args_str, &'static str, Str, |v: Vec<String>| v.into_iter().map(leak).collect::<Vec<&'static str>>(), |a: &&'static str| a.to_string());
args_fn!(
    args_strslice,
    &'static &'static str,
    Str,
    |v: Vec<String>| -> &'static [&'static str] { Box::leak(v.into_iter().map(leak).collect::<Vec<&'static str>>().into_boxed_slice()) },
    |a: &&'static &'static str| a.to_string()
);
args_fn!(args_char, char, Char, |v: Vec<char>| v, |a: &char| a.to_string());
args_fn!(args_dbg, Pt, Dbg, |v: Vec<Pt>| v, |a: &Pt| format!("{a:?}"));

// ---------------------------------------------------------------------------
// Generic palette
// ---------------------------------------------------------------------------

mod nested {
    pub struct Alpha;
    pub mod inner {
        pub struct Beta<T>(pub T);
    }
}

fn entry_type(i: usize) -> (EntryType, &'static str) {
    macro_rules! t {
        ($t:ty) => {
            (EntryType::new::<$t>(), std::any::type_name::<$t>())
        };
    }
    match i {
        0 => t!(i32),
        1 => t!(u64),
        2 => t!(String),
        3 => t!(Vec<u8>),
        4 => t!(&'static str),
        5 => t!(nested::Alpha),
        6 => t!(nested::inner::Beta<u8>),
        7 => t!(Option<nested::Alpha>),
        8 => t!([u8; 4]),
        9 => t!(std::collections::HashMap<String, u32>),
        10 => t!(nested::inner::Beta<nested::Alpha>),
        11 => t!(u8),
        12 => t!(Box<str>),
        // generic parameters that are generic themselves
        14 => t!(Vec<Vec<u8>>),
        15 => t!(Option<Vec<u8>>),
        16 => t!(Result<Vec<u8>, String>),
        17 => t!(nested::inner::Beta<Option<nested::Alpha>>),
        18 => t!(Option<Vec<nested::inner::Beta<u8>>>),
        _ => t!(()),
    }
}

fn entry_const(kind: &str, text: &str) -> EntryConst {
    match kind {
        "i64" => EntryConst::new::<i64>(Box::leak(Box::new(text.parse().unwrap()))),
        "u8" => EntryConst::new::<u8>(Box::leak(Box::new(text.parse().unwrap()))),
        "char" => EntryConst::new::<char>(Box::leak(Box::new(text.chars().next().unwrap()))),
        "bool" => EntryConst::new::<bool>(Box::leak(Box::new(text == "true"))),
        "f64" => EntryConst::new::<f64>(Box::leak(Box::new(text.parse().unwrap()))),
        "str" => EntryConst::new::<&'static str>(Box::leak(Box::new(leak(text.to_owned())))),
        other => panic!("unknown const kind {other}"),
    }
}

// ---------------------------------------------------------------------------
// Registration
// ---------------------------------------------------------------------------

struct Pending {
    kind: char,
    f: Vec<String>,
}

fn meta(f: &[String], opt_slot: Option<usize>) -> EntryMeta {
    EntryMeta {
        module_path: leak(unhex(&f[0])),
        raw_name: leak(unhex(&f[1])),
        display_name: leak(unhex(&f[2])),
        location: EntryLocation { file: leak(unhex(&f[3])), line: f[4].parse().unwrap(), col: f[5].parse().unwrap() },
        bench_options: opt_slot.map(|s| LazyLock::new(OPTS_FNS[s])),
    }
}

fn main() {
    // The spec path comes through the environment so that the command line is exactly what divan's CLI parser sees.
    let spec_path = std::env::var("VERIF_SPEC").expect("VERIF_SPEC");
    let text = std::fs::read_to_string(&spec_path).expect("read spec");

    let mut registry = Registry::default();
    let mut pending: Vec<Pending> = Vec::new();
    let mut builder_ops: Vec<Vec<String>> = Vec::new();
    let mut run_mode = "main".to_owned();
    let mut use_args = true;
    let mut clock_cfg: Option<(u64, u64, u64, u64)> = None;
    let mut clock_os = false;
    // > 0: the entries are pushed into divan's registries from that many threads at once (as constructors of libraries
    // loaded in parallel would do), not one after the other
    let mut par_reg: usize = 0;

    for line in text.lines() {
        let f: Vec<String> = line.split_whitespace().map(|s| s.to_owned()).collect();
        if f.is_empty() || f[0].starts_with('#') {
            continue;
        }
        match f[0].as_str() {
            "clock" => {
                clock_os = f.get(5).map(|x| x == "os").unwrap_or(false);
                clock_cfg = Some((f[1].parse().unwrap(), f[2].parse().unwrap(), f[3].parse().unwrap(), f[4].parse().unwrap()));
            }
            "b" => builder_ops.push(f[1..].to_vec()),
            "run" => run_mode = f[1].clone(),
            "args" => use_args = f[1] == "1",
            "parreg" => par_reg = f[1].parse().unwrap(),
            "G" | "P" | "A" | "X" => pending.push(Pending { kind: f[0].chars().next().unwrap(), f: f[1..].to_vec() }),
            other => panic!("unknown spec line {other}"),
        }
    }

    // First pass: fill the registry tables (slot numbers are assigned in order).
    struct Built {
        kind: char,
        f: Vec<String>,
        opt_slot: Option<usize>,
        slot: usize,
        gen_first: usize,
    }
    let mut built: Vec<Built> = Vec::new();
    for p in &pending {
        let (fields, rest): (&[String], &[String]) = if p.kind == 'G' { (&p.f[0..6], &p.f[6..]) } else { (&p.f[1..7], &p.f[7..]) };
        let o = parse_opts(&rest[0]);
        let opt_slot = if o.present {
            registry.opts.push(o);
            Some(registry.opts.len() - 1)
        } else {
            None
        };
        let mut b = Built { kind: p.kind, f: fields.to_vec(), opt_slot, slot: 0, gen_first: 0 };
        if p.kind != 'G' {
            let bid: usize = p.f[0].parse().unwrap();
            while registry.behaviours.len() <= bid {
                registry.behaviours.push(Behaviour::default());
            }
            registry.behaviours[bid] = parse_beh(&rest[1]);
            match p.kind {
                'P' => {
                    registry.plain_bid.push(bid);
                    b.slot = registry.plain_bid.len() - 1;
                }
                'A' => {
                    let items: Vec<String> = if rest[3] == "-" { Vec::new() } else { rest[3].split(',').map(unhex).collect() };
                    let list = match rest[2].as_str() {
                        "i64" => ArgList::I64(items.iter().map(|s| s.parse().unwrap()).collect()),
                        "u64" => ArgList::U64(items.iter().map(|s| s.parse().unwrap()).collect()),
                        "f64" => ArgList::F64(items.iter().map(|s| s.parse().unwrap()).collect()),
                        "string" | "str" | "strslice" => ArgList::Str(items),
                        "char" => ArgList::Char(items.iter().map(|s| s.chars().next().unwrap()).collect()),
                        "dbg" => ArgList::Dbg(
                            items
                                .iter()
                                .map(|s| {
                                    let (a, c) = s.split_once(':').unwrap();
                                    Pt(a.parse().unwrap(), c.parse().unwrap())
                                })
                                .collect(),
                        ),
                        other => panic!("arg type {other}"),
                    };
                    registry.args_bid.push(bid);
                    registry.args_list.push(list);
                    b.slot = registry.args_bid.len() - 1;
                }
                'X' => {
                    let types: Vec<usize> = if rest[2] == "-" { Vec::new() } else { rest[2].split(',').map(|x| x.parse().unwrap()).collect() };
                    let consts: Vec<String> = if rest[4] == "-" { Vec::new() } else { rest[4].split(',').map(unhex).collect() };
                    b.gen_first = registry.gen_slot.len();
                    let tys: Vec<Option<usize>> = if types.is_empty() { vec![None] } else { types.iter().map(|&t| Some(t)).collect() };
                    let cvs: Vec<Option<String>> = if consts.is_empty() { vec![None] } else { consts.iter().map(|c| Some(c.clone())).collect() };
                    for t in &tys {
                        for c in &cvs {
                            let tl = t.map(|t| entry_type(t).1.to_owned()).unwrap_or_default();
                            registry.gen_slot.push((bid, tl, c.clone().unwrap_or_default()));
                        }
                    }
                }
                _ => unreachable!(),
            }
        }
        built.push(b);
    }
    assert!(registry.opts.len() <= N_OPTS && registry.plain_bid.len() <= N_PLAIN && registry.gen_slot.len() <= N_GEN && registry.args_bid.len() <= N_ARGS);
    REG.set(registry).ok().expect("set registry");

    // Second pass: create the entries and push them into divan's registries, in spec order.
    enum Node {
        B(&'static EntryList<BenchEntry>),
        G(&'static EntryList<GroupEntry>),
    }
    impl Node {
        fn push(self) {
            match self {
                Node::B(n) => BENCH_ENTRIES.push(n),
                Node::G(n) => GROUP_ENTRIES.push(n),
            }
        }
    }
    let mut nodes: Vec<Node> = Vec::new();
    for (b, p) in built.iter().zip(&pending) {
        match b.kind {
            'G' => {
                let g: &'static GroupEntry = Box::leak(Box::new(GroupEntry { meta: meta(&b.f, b.opt_slot), generic_benches: None }));
                nodes.push(Node::G(Box::leak(Box::new(EntryList::new(g)))));
            }
            'P' => {
                let e: &'static BenchEntry =
                    Box::leak(Box::new(BenchEntry { meta: meta(&b.f, b.opt_slot), bench: BenchEntryRunner::Plain(PLAIN_FNS[b.slot]) }));
                nodes.push(Node::B(Box::leak(Box::new(EntryList::new(e)))));
            }
            'A' => {
                let ty = &p.f[9];
                let runner = match ty.as_str() {
                    "i64" => ARGS_I64_FNS[b.slot](),
                    "u64" => ARGS_U64_FNS[b.slot](),
                    "f64" => ARGS_F64_FNS[b.slot](),
                    "string" => ARGS_STRING_FNS[b.slot](),
                    "str" => ARGS_STR_FNS[b.slot](),
                    "strslice" => ARGS_STRSLICE_FNS[b.slot](),
                    "char" => ARGS_CHAR_FNS[b.slot](),
                    "dbg" => ARGS_DBG_FNS[b.slot](),
                    other => panic!("arg type {other}"),
                };
                let e: &'static BenchEntry = Box::leak(Box::new(BenchEntry { meta: meta(&b.f, b.opt_slot), bench: runner }));
                nodes.push(Node::B(Box::leak(Box::new(EntryList::new(e)))));
            }
            'X' => {
                let rest = &p.f[7..];
                let types: Vec<usize> = if rest[2] == "-" { Vec::new() } else { rest[2].split(',').map(|x| x.parse().unwrap()).collect() };
                let ckind = rest[3].clone();
                let consts: Vec<String> = if rest[4] == "-" { Vec::new() } else { rest[4].split(',').map(unhex).collect() };
                let gptr: *mut GroupEntry = Box::into_raw(Box::new(GroupEntry { meta: meta(&b.f, b.opt_slot), generic_benches: None }));
                let gref: &'static GroupEntry = unsafe { &*gptr };
                let tys: Vec<Option<usize>> = if types.is_empty() { vec![None] } else { types.iter().map(|&t| Some(t)).collect() };
                let cvs: Vec<Option<String>> = if consts.is_empty() { vec![None] } else { consts.iter().map(|c| Some(c.clone())).collect() };
                let mut slot = b.gen_first;
                let mut outer: Vec<&'static [GenericBenchEntry]> = Vec::new();
                if !(types.is_empty() && consts.is_empty()) {
                    for t in &tys {
                        let mut inner: Vec<GenericBenchEntry> = Vec::new();
                        for c in &cvs {
                            inner.push(GenericBenchEntry {
                                group: gref,
                                bench: BenchEntryRunner::Plain(GENERIC_FNS[slot]),
                                ty: t.map(|t| entry_type(t).0),
                                const_value: c.as_ref().map(|c| entry_const(&ckind, c)),
                            });
                            slot += 1;
                        }
                        outer.push(Box::leak(inner.into_boxed_slice()));
                    }
                }
                let outer: &'static [&'static [GenericBenchEntry]] = Box::leak(outer.into_boxed_slice());
                unsafe { (*gptr).generic_benches = Some(outer) };
                nodes.push(Node::G(Box::leak(Box::new(EntryList::new(gref)))));
            }
            _ => unreachable!(),
        }
    }
    if par_reg == 0 {
        for n in nodes {
            n.push();
        }
    } else {
        // every thread takes its share, all wait at a spin barrier, then push at the same moment
        let threads = par_reg.min(nodes.len()).max(1);
        let mut shares: Vec<Vec<Node>> = (0..threads).map(|_| Vec::new()).collect();
        for (i, n) in nodes.into_iter().enumerate() {
            shares[i % threads].push(n);
        }
        let ready = std::sync::atomic::AtomicUsize::new(0);
        std::thread::scope(|sc| {
            for share in shares {
                let ready = &ready;
                sc.spawn(move || {
                    ready.fetch_add(1, SeqCst);
                    while ready.load(SeqCst) < threads {
                        std::hint::spin_loop();
                    }
                    for n in share {
                        n.push();
                    }
                });
            }
        });
    }

    if let Some((freq, delta, q, base)) = clock_cfg {
        clock::configure(delta, q);
        clock::new_epoch(base);
        if clock_os {
            clock::install_os();
        } else {
            clock::install(freq);
        }
    }

    // Builder calls, then (optionally) the command line, as `divan::main()` / a custom main would do.
    let mut d = Divan::default();
    for op in &builder_ops {
        // a missing argument is the empty string (an empty thread list)
        let a = |i: usize| op.get(i).cloned().unwrap_or_default();
        d = match op[0].as_str() {
            "sample_count" => d.sample_count(a(1).parse().unwrap()),
            "sample_size" => d.sample_size(a(1).parse().unwrap()),
            "threads" => d.threads(a(1).split(',').filter(|x| !x.is_empty()).map(|x| x.parse::<usize>().unwrap()).collect::<Vec<_>>()),
            "min_time" => d.min_time(duration_from_nanos(a(1).parse().unwrap())),
            "max_time" => d.max_time(duration_from_nanos(a(1).parse().unwrap())),
            "skip_ext_time" => d.skip_ext_time(a(1) == "1"),
            "skip_regex" => d.skip_regex(unhex(&a(1))),
            "skip_exact" => d.skip_exact(unhex(&a(1))),
            "run_ignored" => d.run_ignored(),
            "run_only_ignored" => d.run_only_ignored(),
            "items_count" => d.items_count(a(1).parse::<u64>().unwrap()),
            "bytes_count" => d.bytes_count(a(1).parse::<u64>().unwrap()),
            "chars_count" => d.chars_count(a(1).parse::<u64>().unwrap()),
            "cycles_count" => d.cycles_count(a(1).parse::<u64>().unwrap()),
            "bytes_format" => d.bytes_format(if a(1) == "binary" { BytesFormat::Binary } else { BytesFormat::Decimal }),
            "color" => d.color(false),
            other => panic!("unknown builder op {other}"),
        };
    }
    if use_args {
        d = d.config_with_args();
    }

    let result = catch_unwind(AssertUnwindSafe(|| match run_mode.as_str() {
        "main" => d.main(),
        "bench" => d.run_benches(),
        "test" => d.test_benches(),
        "list" => d.list_benches(),
        // several threads use the runner at the same time (all entry points take &self): whatever is evaluated lazily is
        // still evaluated once per process
        "partest" => {
            let n = 4;
            let ready = std::sync::atomic::AtomicUsize::new(0);
            let dref = &d;
            std::thread::scope(|sc| {
                for k in 0..n {
                    let ready = &ready;
                    sc.spawn(move || {
                        ready.fetch_add(1, SeqCst);
                        while ready.load(SeqCst) < n {
                            std::hint::spin_loop();
                        }
                        if k % 2 == 0 {
                            dref.test_benches()
                        } else {
                            dref.list_benches()
                        }
                    });
                }
            });
        }
        other => panic!("unknown run mode {other}"),
    }));
    use std::io::Write;
    let _ = std::io::stdout().flush();
    println!("\n=====VERIF-LOG=====");
    match result {
        Ok(()) => println!("status ok"),
        Err(e) => {
            let msg = if let Some(s) = e.downcast_ref::<&str>() {
                s.to_string()
            } else if let Some(s) = e.downcast_ref::<String>() {
                s.clone()
            } else {
                "?".into()
            };
            println!("status panic {}", msg.replace('\n', " "));
        }
    }
    for l in LOG.lock().unwrap_or_else(|e| e.into_inner()).iter() {
        println!("{l}");
    }
    println!("=====VERIF-END=====");
}
