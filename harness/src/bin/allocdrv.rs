//! AllocProfiler driver, direct mode (C09, C10): drives `AllocProfiler<Mock>` with scripted
//! request sequences on 1..8 concurrent threads. The mock records every call it receives and
//! returns scripted values (real-looking pointers, null, sentinels) without touching memory.
//! The binary's global allocator is the plain system allocator, so only scripted operations
//! touch the thread's tally, which is read after every operation.

use std::{
    alloc::{GlobalAlloc, Layout},
    cell::Cell,
    io::Write,
};

use divan::{
    verif::{self, TallyCopy},
    AllocProfiler,
};
use vharness::{
    cfg::{self, Cfg},
    rng::Rng,
};

#[derive(Clone, Copy, Default, PartialEq, Eq, Debug)]
struct Call {
    op: u8,
    size: usize,
    align: usize,
    ptr: usize,
    new_size: usize,
}

thread_local! {
    static CALLS: Cell<u64> = const { Cell::new(0) };
    static LAST: Cell<Call> = const { Cell::new(Call { op: 9, size: 0, align: 0, ptr: 0, new_size: 0 }) };
    static NEXT_RET: Cell<usize> = const { Cell::new(0) };
    static DEPTH: Cell<u32> = const { Cell::new(0) };
    static MAX_DEPTH: Cell<u32> = const { Cell::new(0) };
}

struct Mock;

impl Mock {
    fn record(&self, call: Call) -> *mut u8 {
        CALLS.with(|c| c.set(c.get() + 1));
        LAST.with(|l| l.set(call));
        std::ptr::without_provenance_mut(NEXT_RET.with(|r| r.get()))
    }
}

unsafe impl GlobalAlloc for Mock {
    unsafe fn alloc(&self, layout: Layout) -> *mut u8 {
        self.record(Call { op: 0, size: layout.size(), align: layout.align(), ptr: 0, new_size: 0 })
    }
    unsafe fn alloc_zeroed(&self, layout: Layout) -> *mut u8 {
        self.record(Call { op: 1, size: layout.size(), align: layout.align(), ptr: 0, new_size: 0 })
    }
    unsafe fn realloc(&self, ptr: *mut u8, layout: Layout, new_size: usize) -> *mut u8 {
        self.record(Call { op: 2, size: layout.size(), align: layout.align(), ptr: ptr.addr(), new_size })
    }
    unsafe fn dealloc(&self, ptr: *mut u8, layout: Layout) {
        self.record(Call { op: 3, size: layout.size(), align: layout.align(), ptr: ptr.addr(), new_size: 0 });
    }
}

static PROFILER: AllocProfiler<Mock> = AllocProfiler::new(Mock);

#[derive(Clone, Copy)]
struct Record {
    req: Call,
    want_ret: usize,
    got_ret: usize,
    inner_calls: u64,
    inner: Call,
    tally: Option<TallyCopy>,
    cleared: bool,
}

fn pick_size(rng: &mut Rng, big: bool) -> usize {
    match rng.below(12) {
        0 => 0,
        1 => 1,
        2 => rng.below(64) as usize,
        3 => rng.below(4096) as usize,
        4 => 1 << rng.below(20),
        5 => (1usize << rng.below(20)) + 1,
        6 if big => 1usize << (20 + rng.below(21)),
        7 if big => (1usize << 40) - rng.below(3) as usize,
        _ => rng.below(100_000) as usize,
    }
}

/// Runs one scripted sequence on the current thread; returns the records.
/// Largest size `Layout::from_size_align` accepts for this alignment, or one of its neighbours below.
fn edge_size(rng: &mut Rng, align: usize) -> usize {
    let max = isize::MAX as usize - (align - 1);
    match rng.below(5) {
        0 | 1 => max,
        2 => max - 1,
        3 => max - align,
        _ => 1usize << 62,
    }
}

fn run_sequence(seed: u64, len: usize, big: bool, clear_every: u64, null_pct: u64, edge: bool) -> Vec<Record> {
    let mut rng = Rng::new(seed);
    let mut records: Vec<Record> = Vec::with_capacity(len + 1);
    // live blocks: (fake ptr, size, align)
    let mut live: Vec<(usize, usize, usize)> = Vec::with_capacity(len + 1);
    let mut next_ptr: usize = 0x10_0000 + (seed as usize & 0xFFFF) * 0x1000;
    let cleared0 = verif::clear_thread_tally();
    records.push(Record {
        req: Call { op: 8, ..Default::default() },
        want_ret: 0,
        got_ret: 0,
        inner_calls: 0,
        inner: Call::default(),
        tally: verif::thread_tally(),
        cleared: cleared0,
    });
    for step in 0..len {
        let mut cleared = false;
        if clear_every > 0 && rng.below(clear_every) == 0 {
            cleared = verif::clear_thread_tally();
        }
        let choice = rng.below(10);
        let align = 1usize << rng.below(13);
        let op: u8 = if live.is_empty() {
            (choice % 2) as u8
        } else {
            match choice {
                0..=2 => 0,
                3 => 1,
                4..=6 => 2,
                _ => 3,
            }
        };
        // occasionally deallocate something that was never allocated since the clear (count goes negative)
        let phantom = rng.below(25) == 0;
        let want_null = rng.below(100) < null_pct;
        let (req, want_ret) = match op {
            0 | 1 => {
                let size = if edge && rng.below(3) == 0 { edge_size(&mut rng, align) } else { pick_size(&mut rng, big) };
                next_ptr += 0x1000;
                let ret = if want_null { 0 } else if rng.below(50) == 0 { usize::MAX - 7 } else { next_ptr };
                (Call { op, size, align, ptr: 0, new_size: 0 }, ret)
            }
            2 => {
                let (ptr, size, al) = if phantom || live.is_empty() {
                    (0xDEAD_0000usize, pick_size(&mut rng, big), align)
                } else {
                    live[rng.below(live.len() as u64) as usize]
                };
                let new_size = match rng.below(if edge { 9 } else { 6 }) {
                    6..=8 => edge_size(&mut rng, al),
                    0 => size,
                    1 => 0,
                    2 => size / 2,
                    3 => size.saturating_mul(2).min(1 << 41),
                    _ => pick_size(&mut rng, big),
                };
                next_ptr += 0x1000;
                let ret = if want_null { 0 } else { next_ptr };
                (Call { op, size, align: al, ptr, new_size }, ret)
            }
            _ => {
                let (ptr, size, al) = if phantom || live.is_empty() {
                    (0xBEEF_0000usize, pick_size(&mut rng, big), align)
                } else {
                    let i = rng.below(live.len() as u64) as usize;
                    live.swap_remove(i)
                };
                (Call { op, size, align: al, ptr, new_size: 0 }, 0)
            }
        };
        let layout = match Layout::from_size_align(req.size, req.align) {
            Ok(l) => l,
            Err(_) => continue,
        };
        NEXT_RET.with(|r| r.set(want_ret));
        let calls0 = CALLS.with(|c| c.get());
        LAST.with(|l| l.set(Call { op: 9, ..Default::default() }));
        let got: usize = unsafe {
            match req.op {
                0 => PROFILER.alloc(layout).addr(),
                1 => PROFILER.alloc_zeroed(layout).addr(),
                2 => PROFILER.realloc(std::ptr::without_provenance_mut(req.ptr), layout, req.new_size).addr(),
                _ => {
                    PROFILER.dealloc(std::ptr::without_provenance_mut(req.ptr), layout);
                    0
                }
            }
        };
        let inner_calls = CALLS.with(|c| c.get()) - calls0;
        let inner = LAST.with(|l| l.get());
        let tally = verif::thread_tally();
        match req.op {
            0 | 1 => {
                if got != 0 {
                    live.push((got, req.size, req.align));
                }
            }
            2 => {
                if got != 0 {
                    if let Some(slot) = live.iter_mut().find(|b| b.0 == req.ptr) {
                        *slot = (got, req.new_size, req.align);
                    }
                }
            }
            _ => {}
        }
        if records.len() < records.capacity() {
            records.push(Record { req, want_ret, got_ret: got, inner_calls, inner, tally, cleared });
        }
        let _ = step;
    }
    records
}

fn print_records(out: &mut dyn Write, thread: usize, records: &[Record]) {
    for r in records {
        let t = match &r.tally {
            Some(t) => format!(
                "{} {} {} {} {} {} {} {} {} {} {} {}",
                t.tallies[0].0, t.tallies[0].1, t.tallies[1].0, t.tallies[1].1, t.tallies[2].0, t.tallies[2].1, t.tallies[3].0,
                t.tallies[3].1, t.current_count, t.max_count, t.current_size, t.max_size
            ),
            None => "none".to_owned(),
        };
        let _ = writeln!(
            out,
            "O {} {} {} {} {} {} {} {} | {} {} {} {} {} {} | {}",
            thread,
            r.req.op,
            r.req.size,
            r.req.align,
            r.req.ptr,
            r.req.new_size,
            r.want_ret,
            r.got_ret,
            r.inner_calls,
            r.inner.op,
            r.inner.size,
            r.inner.align,
            r.inner.ptr,
            r.inner.new_size,
            if r.cleared { format!("C {t}") } else { format!("T {t}") }
        );
    }
}

fn run_config(out: &mut dyn Write, line: &str) {
    let c = Cfg::parse(line);
    let id = c.str("id", "0");
    let threads = c.u64("threads", 1) as usize;
    let len = c.u64("len", 100) as usize;
    let seed = c.u64("seed", 1);
    let big = c.u64("big", 1) != 0;
    let clear_every = c.u64("clear", 0);
    let null_pct = c.u64("nullpct", 5);
    let edge = c.u64("edge", 0) != 0;
    let mut all: Vec<Vec<Record>> = Vec::new();
    if threads <= 1 && c.u64("spawn", 0) == 0 {
        all.push(run_sequence(seed, len, big, clear_every, null_pct, edge));
    } else {
        let barrier = std::sync::Arc::new(std::sync::Barrier::new(threads));
        let handles: Vec<_> = (0..threads)
            .map(|t| {
                let barrier = barrier.clone();
                std::thread::spawn(move || {
                    barrier.wait();
                    run_sequence(seed.wrapping_mul(31).wrapping_add(t as u64), len, big, clear_every, null_pct, edge)
                })
            })
            .collect();
        for h in handles {
            all.push(h.join().expect("sequence thread panicked"));
        }
    }
    let _ = writeln!(out, "RUN {id} ok");
    let _ = writeln!(out, "CFG {line}");
    for (t, recs) in all.iter().enumerate() {
        print_records(out, t, recs);
    }
    let _ = writeln!(out, "END {id}");
    let _ = out.flush();
}

fn main() {
    let args: Vec<String> = std::env::args().skip(1).collect();
    let mut lines: Vec<String> = Vec::new();
    let mut i = 0;
    while i < args.len() {
        match args[i].as_str() {
            "--file" => {
                lines.extend(cfg::read_lines(&args[i + 1]));
                i += 2;
            }
            "--line" => {
                lines.push(args[i + 1].clone());
                i += 2;
            }
            "--noop" => {
                i += 1;
            }
            other => panic!("unknown argument {other}"),
        }
    }
    let stdout = std::io::stdout();
    let mut out = std::io::BufWriter::with_capacity(1 << 20, stdout.lock());
    for line in &lines {
        run_config(&mut out, line);
    }
    let _ = writeln!(out, "DONE {}", lines.len());
    let _ = out.flush();
}
