//! AllocProfiler driver, sandwich mode (C09, C10): the global allocator is
//! `LogOuter<AllocProfiler<LogInner<System>>>`. Hundreds of short-lived threads make their first
//! and last allocator calls during thread start-up and inside thread-local destructors; the two
//! logging layers check online that every outer request reaches the inner allocator exactly once,
//! unchanged, with the inner result returned, and that the profiler never re-enters the allocator.
//! Each thread also runs real allocator traffic whose tally is compared offline with a model fed
//! by the outer layer's events.

use std::{
    alloc::{alloc, alloc_zeroed, dealloc, realloc, Layout, System},
    cell::RefCell,
    io::Write,
    sync::atomic::Ordering::*,
};

use divan::{
    verif, AllocProfiler, Bencher, Divan,
    __private::{BenchEntry, BenchEntryRunner, EntryList, EntryLocation, EntryMeta, BENCH_ENTRIES},
};
use vharness::{
    allocs::{self, LogInner, LogOuter},
    cfg::{self, Cfg},
    evlog,
    rng::Rng,
};

#[global_allocator]
static GLOBAL: LogOuter<AllocProfiler<LogInner<System>>> =
    LogOuter::new(AllocProfiler::new(LogInner::new(System)), true);

struct DtorAllocates {
    keep: Vec<u64>,
}

impl Drop for DtorAllocates {
    fn drop(&mut self) {
        allocs::IN_TLS_DTOR.with(|d| d.set(true));
        // allocate and free inside the thread-local destructor
        let mut v: Vec<u64> = Vec::with_capacity(8 + self.keep.len());
        v.extend(self.keep.iter().copied());
        v.push(1);
        std::hint::black_box(&v);
        drop(v);
        let b = Box::new([0u8; 100]);
        std::hint::black_box(&b);
        drop(b);
        // `keep` itself is freed right after this body, still inside the destructor.
    }
}

/// A thread-local whose destructor is registered *before* the thread's first allocator request (registering it allocates nothing
/// through the global allocator), so it runs after everything the allocator stack itself keeps per thread has been torn down. Its
/// destructor sends one request of each kind, and the reallocations in both directions.
struct EarlyDtor(std::cell::Cell<u64>);

impl Drop for EarlyDtor {
    fn drop(&mut self) {
        let s = self.0.get();
        if s == 0 {
            return;
        }
        allocs::IN_TLS_DTOR.with(|d| d.set(true));
        unsafe {
            let size = (s % 200) as usize + 1;
            let l = Layout::from_size_align(size, 8).unwrap();
            let p = alloc(l);
            assert!(!p.is_null());
            p.write_volatile(1);
            let p = realloc(p, l, size * 3);
            assert!(!p.is_null());
            let l = Layout::from_size_align(size * 3, 8).unwrap();
            let p = realloc(p, l, size);
            assert!(!p.is_null());
            dealloc(p, Layout::from_size_align(size, 8).unwrap());
            let lz = Layout::from_size_align(size + 7, 16).unwrap();
            let z = alloc_zeroed(lz);
            assert!(!z.is_null());
            assert_eq!(z.add(size + 6).read_volatile(), 0);
            let z = realloc(z, lz, size + 7);
            assert!(!z.is_null());
            dealloc(z, lz);
        }
    }
}

thread_local! {
    static TLS: RefCell<Option<DtorAllocates>> = const { RefCell::new(None) };
    static EARLY: EarlyDtor = const { EarlyDtor(std::cell::Cell::new(0)) };
}

// Threads that std did not start (a C library calling back into Rust): nothing has run on them before `raw_body`, so the
// destructor armed in its first statement is certainly registered before the thread's first allocator request.
extern "C" {
    fn pthread_create(
        thread: *mut usize,
        attr: *const std::ffi::c_void,
        start: extern "C" fn(*mut std::ffi::c_void) -> *mut std::ffi::c_void,
        arg: *mut std::ffi::c_void,
    ) -> i32;
    fn pthread_join(thread: usize, ret: *mut *mut std::ffi::c_void) -> i32;
}

extern "C" fn raw_body(arg: *mut std::ffi::c_void) -> *mut std::ffi::c_void {
    let s = arg as usize as u64;
    EARLY.with(|e| e.0.set(s | 1));
    let mut v: Vec<u64> = Vec::new();
    for i in 0..(s % 40 + 3) {
        v.push(i);
    }
    v.shrink_to_fit();
    std::hint::black_box(&v);
    drop(v);
    std::ptr::null_mut()
}

fn raw_threads(n: usize, seed: u64) {
    let mut ids = [0usize; 64];
    let n = n.min(64);
    for (i, id) in ids.iter_mut().enumerate().take(n) {
        let rc = unsafe { pthread_create(id, std::ptr::null(), raw_body, (seed as usize).wrapping_add(i * 2) as *mut _) };
        assert_eq!(rc, 0, "pthread_create failed");
    }
    for id in ids.iter().take(n) {
        unsafe { pthread_join(*id, std::ptr::null_mut()) };
    }
}

fn real_traffic(seed: u64, len: usize) -> Option<verif::TallyCopy> {
    let mut rng = Rng::new(seed);
    let mut live: [(*mut u8, usize, usize); 32] = [(std::ptr::null_mut(), 0, 8); 32];
    let mut n = 0usize;
    // Measuring a thread (creating / clearing / reading its tally) must not itself issue allocator requests.
    evlog::log_raw(evlog::NOTE, 12, seed, 0);
    verif::clear_thread_tally();
    evlog::log_raw(evlog::NOTE, 13, seed, 0);
    evlog::log_raw(evlog::NOTE, 10, seed, 0);
    for _ in 0..len {
        let size = match rng.below(5) {
            0 => 1,
            1 => rng.below(64) as usize + 1,
            2 => rng.below(5000) as usize + 1,
            _ => 1 << rng.below(14),
        };
        unsafe {
            match rng.below(10) {
                0..=3 if n < 32 => {
                    // alignments from 1 to a page, sizes that need not be multiples of them
                    let align = [8usize, 8, 1, 2, 16, 32, 64, 128, 4096][rng.below(9) as usize];
                    let l = Layout::from_size_align(size, align).unwrap();
                    let p = if rng.below(3) == 0 { alloc_zeroed(l) } else { alloc(l) };
                    assert!(!p.is_null());
                    live[n] = (p, size, align);
                    n += 1;
                }
                4..=6 if n > 0 => {
                    let i = rng.below(n as u64) as usize;
                    let (p, old, align) = live[i];
                    let new = if rng.below(4) == 0 { old } else { size };
                    let np = realloc(p, Layout::from_size_align(old, align).unwrap(), new);
                    assert!(!np.is_null());
                    live[i] = (np, new, align);
                }
                _ if n > 0 => {
                    let i = rng.below(n as u64) as usize;
                    let (p, old, align) = live[i];
                    dealloc(p, Layout::from_size_align(old, align).unwrap());
                    n -= 1;
                    live[i] = live[n];
                }
                _ => {}
            }
        }
    }
    evlog::log_raw(evlog::NOTE, 11, seed, 0);
    evlog::log_raw(evlog::NOTE, 12, seed, 1);
    let tally = verif::thread_tally();
    evlog::log_raw(evlog::NOTE, 13, seed, 1);
    for item in live.iter().take(n) {
        unsafe { dealloc(item.0, Layout::from_size_align(item.1, item.2).unwrap()) };
    }
    tally
}

fn registered_body(bencher: Bencher) {
    bencher.bench(|| std::hint::black_box(3u64) + 4);
}

/// The profiler stays a pass-through wrapper whatever the benchmark runner did earlier in the process: `act` = 1 runs
/// `Divan::test_benches()`, 2 `Divan::list_benches()`, 3 both, over a registry of one trivial benchmark, before the traffic.
fn runner_action(act: u64) {
    static ONCE: std::sync::Once = std::sync::Once::new();
    ONCE.call_once(|| {
        let e: &'static BenchEntry = Box::leak(Box::new(BenchEntry {
            meta: EntryMeta {
                module_path: "sandwichdrv",
                raw_name: "registered_body",
                display_name: "registered_body",
                location: EntryLocation { file: "src/bin/sandwichdrv.rs", line: 1, col: 1 },
                bench_options: None,
            },
            bench: BenchEntryRunner::Plain(registered_body),
        }));
        BENCH_ENTRIES.push(Box::leak(Box::new(EntryList::new(e))));
    });
    // the runner prints its tree on stdout; every line of it is outside the protocol this driver speaks ("# " prefix not needed:
    // the reader only looks at known line heads)
    if act & 1 != 0 {
        Divan::default().test_benches();
    }
    if act & 2 != 0 {
        Divan::default().list_benches();
    }
}

fn run_config(out: &mut dyn Write, line: &str) {
    let c = Cfg::parse(line);
    let id = c.str("id", "0");
    let act = c.u64("act", 0);
    if act != 0 {
        let _ = out.flush();
        runner_action(act);
    }
    let threads = c.u64("threads", 64) as usize;
    let waves = c.u64("waves", 4) as usize;
    let len = c.u64("len", 60) as usize;
    let seed = c.u64("seed", 1);
    let v0 = allocs::SANDWICH_VIOLATIONS.load(SeqCst);
    let o0 = allocs::OUTER_CALLS.load(SeqCst);
    let i0 = allocs::INNER_TOTAL.load(SeqCst);
    let f0 = allocs::CALLS_FIRST_ON_THREAD.load(SeqCst);
    let d0 = allocs::CALLS_IN_TLS_DTOR.load(SeqCst);
    evlog::reset();
    evlog::enable(true);
    evlog::log(evlog::RUN_BEGIN, 0, 0, 0);
    let mut tallies: Vec<(u64, u32, Option<verif::TallyCopy>)> = Vec::new();
    for w in 0..waves {
        let handles: Vec<_> = (0..threads)
            .map(|t| {
                let s = seed.wrapping_mul(1_000_003).wrapping_add((w * threads + t) as u64);
                std::thread::Builder::new()
                    .name(format!("sw-{w}-{t}"))
                    .spawn(move || {
                        // every other thread arms a destructor before it has sent a single request of its own
                        if s % 2 == 0 {
                            EARLY.with(|e| e.0.set(s | 1));
                        }
                        // first allocator calls of this thread happened during start-up (name, spawn closure)
                        TLS.with(|slot| *slot.borrow_mut() = Some(DtorAllocates { keep: vec![s; (s % 7) as usize + 1] }));
                        let tally = real_traffic(s, len);
                        (s, evlog::tid(), tally)
                    })
                    .unwrap()
            })
            .collect();
        for h in handles {
            tallies.push(h.join().unwrap());
        }
        if !cfg!(miri) {
            raw_threads(threads / 4 + 1, seed.wrapping_add(w as u64 * 1000));
        }
    }
    evlog::log(evlog::RUN_END, 0, 0, 0);
    evlog::enable(false);
    let _ = writeln!(out, "RUN {id} ok");
    let _ = writeln!(out, "CFG {line}");
    let _ = writeln!(
        out,
        "SW violations={} first_code={} outer={} inner={} first_on_thread={} in_tls_dtor={} max_depth={}",
        allocs::SANDWICH_VIOLATIONS.load(SeqCst) - v0,
        allocs::FIRST_VIOLATION.load(SeqCst),
        allocs::OUTER_CALLS.load(SeqCst) - o0,
        allocs::INNER_TOTAL.load(SeqCst) - i0,
        allocs::CALLS_FIRST_ON_THREAD.load(SeqCst) - f0,
        allocs::CALLS_IN_TLS_DTOR.load(SeqCst) - d0,
        allocs::MAX_DEPTH.load(SeqCst),
    );
    for (s, tid, t) in &tallies {
        match t {
            Some(t) => {
                let _ = writeln!(
                    out,
                    "TT {} {} {} {} {} {} {} {} {} {} {} {} {} {}",
                    s, tid, t.tallies[0].0, t.tallies[0].1, t.tallies[1].0, t.tallies[1].1, t.tallies[2].0, t.tallies[2].1,
                    t.tallies[3].0, t.tallies[3].1, t.current_count, t.max_count, t.current_size, t.max_size
                );
            }
            None => {
                let _ = writeln!(out, "TT {s} {tid} none");
            }
        }
    }
    evlog::dump(out);
    let _ = writeln!(out, "END {id}");
    let _ = out.flush();
}

fn main() {
    let args: Vec<String> = std::env::args().skip(1).collect();
    let mut lines: Vec<String> = Vec::new();
    let mut i = 0;
    while i < args.len() {
        match args[i].as_str() {
            "--file" => {
                lines.extend(cfg::read_lines(&args[i + 1]));
                i += 2;
            }
            "--line" => {
                lines.push(args[i + 1].clone());
                i += 2;
            }
            "--noop" => {
                i += 1;
            }
            other => panic!("unknown argument {other}"),
        }
    }
    evlog::init(if cfg!(miri) { 1 << 15 } else { 1 << 22 });
    let stdout = std::io::stdout();
    let mut out = std::io::BufWriter::with_capacity(1 << 20, stdout.lock());
    for line in &lines {
        run_config(&mut out, line);
    }
    let _ = writeln!(out, "DONE {}", lines.len());
    let _ = out.flush();
}
