//! Sample-loop driver: runs the real `Bencher` loop under the virtual clock with
//! instrumented values, scripted costs / allocations / panics, and dumps the
//! event log plus the loop's own report for the offline oracles
//! (C01 C02 C03 C04 C05 C08 C19).

use std::{
    alloc::System,
    io::Write,
    panic::{catch_unwind, AssertUnwindSafe},
    time::Duration,
};

use divan::{
    counter::{BytesCount, CharsCount, CyclesCount, ItemsCount},
    verif::{self, LoopConfig, LoopReport},
    AllocProfiler, Bencher,
    __private::BenchOptions,
};
use vharness::{
    allocs::{self, LogInner, LogOuter},
    cfg::{self, Cfg},
    clock, evlog, failpoint,
    tracked::{self, *},
};

#[global_allocator]
static GLOBAL: LogOuter<AllocProfiler<LogInner<System>>> =
    LogOuter::new(AllocProfiler::new(LogInner::new(System)), true);

fn pairs(c: &Cfg, key: &str) -> Vec<(u64, u64)> {
    let s = c.str(key, "");
    s.split(',')
        .filter(|t| !t.is_empty())
        .map(|t| {
            let (a, b) = t.split_once(':').expect("pair");
            (a.parse().unwrap(), b.parse().unwrap())
        })
        .collect()
}

fn duration_from_nanos(n: u128) -> Duration {
    if n >= (u64::MAX as u128) * 1_000_000_000 {
        Duration::MAX
    } else {
        Duration::new((n / 1_000_000_000) as u64, (n % 1_000_000_000) as u32)
    }
}

macro_rules! with_counters {
    ($b:expr, $c:expr, $I:ty, $late:expr) => {{
        let mut b = $b;
        // `bclate=1`: the constant counters are set after the per-input ones instead of before them
        for (kind, value) in pairs($c, "bc").into_iter().filter(|_| ($c.u64("bclate", 0) != 0) == $late) {
            b = match kind {
                0 => b.counter(BytesCount::new(value)),
                1 => b.counter(CharsCount::new(value)),
                2 => b.counter(CyclesCount::new(value)),
                _ => b.counter(ItemsCount::new(value)),
            };
        }
        b
    }};
}

macro_rules! with_input_counters {
    ($b:expr, $c:expr, $I:ty) => {{
        let mut b = $b;
        for kind in $c.list("ic") {
            b = match kind {
                0 => b.input_counter(|i: &$I| BytesCount::new(count_value::<$I>(0, i))),
                1 => b.input_counter(|i: &$I| CharsCount::new(count_value::<$I>(1, i))),
                2 => b.input_counter(|i: &$I| CyclesCount::new(count_value::<$I>(2, i))),
                _ => b.input_counter(|i: &$I| ItemsCount::new(count_value::<$I>(3, i))),
            };
        }
        b
    }};
}

fn drive<I: In, O: Out<I>>(b: Bencher, entry: u64, c: &Cfg) {
    let b = b.with_inputs(gen::<I>);
    let b = with_counters!(b, c, I, false);
    let b = with_input_counters!(b, c, I);
    let b = with_counters!(b, c, I, true);
    match entry {
        2 => b.bench_values(call_value::<I, O>),
        3 => b.bench_local_values(call_value::<I, O>),
        4 => b.bench_refs(call_ref::<I, O>),
        5 => b.bench_local_refs(call_ref::<I, O>),
        _ => panic!("bad entry"),
    }
}

fn drive_u<O: Out<u64>>(b: Bencher, entry: u64, c: &Cfg) {
    let b = b.with_inputs(gen::<u64>);
    let b = with_counters!(b, c, u64, false);
    let mut b = with_input_counters!(b, c, u64);
    for kind in c.list("countas") {
        b = match kind {
            0 => b.count_inputs_as::<BytesCount>(),
            1 => b.count_inputs_as::<CharsCount>(),
            2 => b.count_inputs_as::<CyclesCount>(),
            _ => b.count_inputs_as::<ItemsCount>(),
        };
    }
    let b = with_counters!(b, c, u64, true);
    match entry {
        2 => b.bench_values(call_value::<u64, O>),
        3 => b.bench_local_values(call_value::<u64, O>),
        4 => b.bench_refs(call_ref::<u64, O>),
        5 => b.bench_local_refs(call_ref::<u64, O>),
        _ => panic!("bad entry"),
    }
}

fn drive_unit<O: Out<InZ>>(b: Bencher, entry: u64, c: &Cfg) {
    let b = with_counters!(b, c, InZ, false);
    let b = with_counters!(b, c, InZ, true);
    match entry {
        0 => b.bench(call_unit::<O>),
        1 => b.bench_local(call_unit::<O>),
        _ => panic!("bad entry"),
    }
}

macro_rules! dispatch_out {
    ($b:expr, $entry:expr, $c:expr, $I:ty, $o:expr) => {
        match $o {
            "z" => drive::<$I, OutZ>($b, $entry, $c),
            "zd" => drive::<$I, OutZD>($b, $entry, $c),
            "s" => drive::<$I, OutS>($b, $entry, $c),
            "sd" => drive::<$I, OutSD>($b, $entry, $c),
            "c" => drive::<$I, OutC<$I>>($b, $entry, $c),
            other => panic!("bad oshape {other}"),
        }
    };
}

fn dispatch(b: Bencher, c: &Cfg) {
    let entry = c.u64("entry", 0);
    let ishape = c.str("ishape", "z");
    let oshape = c.str("oshape", "z");
    if entry < 2 {
        match oshape.as_str() {
            "z" => drive_unit::<OutZ>(b, entry, c),
            "zd" => drive_unit::<OutZD>(b, entry, c),
            "s" => drive_unit::<OutS>(b, entry, c),
            "sd" => drive_unit::<OutSD>(b, entry, c),
            other => panic!("bad oshape {other} for entry {entry}"),
        }
        return;
    }
    match ishape.as_str() {
        "z" => dispatch_out!(b, entry, c, InZ, oshape.as_str()),
        "zd" => dispatch_out!(b, entry, c, InZD, oshape.as_str()),
        "s" => dispatch_out!(b, entry, c, InS, oshape.as_str()),
        "sd" => dispatch_out!(b, entry, c, InSD, oshape.as_str()),
        "u" => match oshape.as_str() {
            "z" => drive_u::<OutZ>(b, entry, c),
            "zd" => drive_u::<OutZD>(b, entry, c),
            "s" => drive_u::<OutS>(b, entry, c),
            "sd" => drive_u::<OutSD>(b, entry, c),
            "c" => drive_u::<OutC<u64>>(b, entry, c),
            other => panic!("bad oshape {other}"),
        },
        other => panic!("bad ishape {other}"),
    }
}

fn fmt_f64s(v: &[f64]) -> String {
    v.iter().map(|x| format!("{x:?}")).collect::<Vec<_>>().join(",")
}

fn join<T: ToString>(v: impl IntoIterator<Item = T>) -> String {
    v.into_iter().map(|x| x.to_string()).collect::<Vec<_>>().join(",")
}

fn print_report(out: &mut dyn Write, r: &LoopReport) {
    let _ = writeln!(
        out,
        "R did_run={} sample_size={} cap={} uses={}",
        r.did_run as u8,
        r.sample_size,
        r.samples_capacity,
        join(r.uses_input_counts.iter().map(|&b| b as u8))
    );
    let _ = writeln!(out, "S {}", join(r.samples_ps.iter()));
    for (i, t) in &r.alloc {
        let _ = writeln!(
            out,
            "A {} {} {} {} {} {}",
            i,
            join(t.tallies.iter().flat_map(|&(c, s)| [c, s])),
            t.current_count,
            t.max_count,
            t.current_size,
            t.max_size
        );
    }
    for (k, counts) in r.counters.iter().enumerate() {
        let _ = writeln!(out, "C {} {}", k, join(counts.iter()));
    }
    match &r.stats {
        None => {
            let _ = writeln!(out, "ST none");
        }
        Some(Err(msg)) => {
            let _ = writeln!(out, "ST panic {}", msg.replace('\n', " "));
        }
        Some(Ok(s)) => {
            let _ = writeln!(out, "ST ok {} {}", s.sample_count, s.iter_count);
            let _ = writeln!(out, "STT {}", join(s.time.iter()));
            let _ = writeln!(out, "STMC {}", fmt_f64s(&s.max_alloc_count));
            let _ = writeln!(out, "STMS {}", fmt_f64s(&s.max_alloc_size));
            for op in 0..4 {
                let _ = writeln!(out, "STAC {} {}", op, fmt_f64s(&s.alloc_count[op]));
                let _ = writeln!(out, "STAS {} {}", op, fmt_f64s(&s.alloc_size[op]));
            }
            for k in 0..4 {
                match &s.counts[k] {
                    Some(c) => {
                        let _ = writeln!(out, "STC {} {}", k, join(c.iter()));
                    }
                    None => {
                        let _ = writeln!(out, "STC {} -", k);
                    }
                }
            }
        }
    }
}

fn run_one(out: &mut dyn Write, line: &str, epoch: &mut u64) {
    let c = Cfg::parse(line);
    let id = c.str("id", "0");

    tracked::install_script(Script::from_cfg(&c));

    let freq = c.u64("freq", 1_000_000_000_000);
    clock::configure(c.u64("delta", 1), c.u64("q", 1));
    if c.has("regress") {
        let v = c.list("regress");
        clock::configure_regress(v[0], v[1], c.u64("seed", 0));
    } else {
        clock::configure_regress(0, 0, 0);
    }
    // Every run starts from the same small base; threads of earlier runs never read the clock again.
    *epoch = c.u64("base", 1_000_000);
    clock::new_epoch(*epoch);
    let tsc = c.u64("tsc", 1) != 0;
    if tsc {
        clock::remove();
        clock::install(freq);
    } else if c.u64("vos", 0) != 0 {
        // the OS-timer path on a scripted clock (one tick = 1 ns)
        clock::install_os();
    } else {
        clock::remove();
    }

    failpoint::configure(c.u64("fpseed", 0), c.u64("fpint", 0), c.u64("fplog", 1) != 0);
    failpoint::target(c.u64("fpmask", 0), c.u64("fpus", 0));

    let mut options = BenchOptions::default();
    let s = c.i64("s", -1);
    if s >= 0 {
        options.sample_size = Some(s as u32);
    }
    let n = c.i64("n", -1);
    if n >= 0 {
        options.sample_count = Some(n as u32);
    }
    if c.has("min") {
        options.min_time = Some(duration_from_nanos(c.str("min", "0").parse().unwrap()));
    }
    if c.has("max") {
        options.max_time = Some(duration_from_nanos(c.str("max", "0").parse().unwrap()));
    }
    let skip = c.i64("skip", -1);
    if skip >= 0 {
        options.skip_ext_time = Some(skip != 0);
    }
    for (kind, value) in pairs(&c, "oc") {
        match kind {
            0 => options.counters.insert(BytesCount::new(value)),
            1 => options.counters.insert(CharsCount::new(value)),
            2 => options.counters.insert(CyclesCount::new(value)),
            _ => options.counters.insert(ItemsCount::new(value)),
        };
    }

    let lc = LoopConfig { test: c.u64("test", 0) != 0, tsc, threads: c.u64("T", 1) as usize, options };

    let v0 = allocs::SANDWICH_VIOLATIONS.load(std::sync::atomic::Ordering::SeqCst);
    tracked::prefill_stash();
    evlog::reset();
    evlog::enable(true);
    evlog::log(evlog::RUN_BEGIN, 0, 0, 0);
    let result = catch_unwind(AssertUnwindSafe(|| verif::run_bencher(&lc, &mut |b| dispatch(b, &c))));
    evlog::log(evlog::RUN_END, 0, 0, 0);
    evlog::enable(false);
    tracked::end_of_run_cleanup();
    let v1 = allocs::SANDWICH_VIOLATIONS.load(std::sync::atomic::Ordering::SeqCst);

    match &result {
        Ok(_) => {
            let _ = writeln!(out, "RUN {id} ok");
        }
        Err(e) => {
            let msg = if let Some(s) = e.downcast_ref::<&str>() {
                s.to_string()
            } else if let Some(s) = e.downcast_ref::<String>() {
                s.clone()
            } else {
                "<non-string>".into()
            };
            let _ = writeln!(out, "RUN {id} panic {}", msg.replace('\n', " "));
        }
    }
    let _ = writeln!(out, "CFG {line}");
    let _ = writeln!(out, "SANDWICH {}", v1 - v0);
    if let Ok(r) = &result {
        print_report(out, r);
    }
    evlog::dump(out);
    let _ = writeln!(out, "END {id}");
    let _ = out.flush();
}

fn main() {
    let args: Vec<String> = std::env::args().skip(1).collect();
    let mut lines: Vec<String> = Vec::new();
    let mut cap: usize = if cfg!(miri) { 1 << 15 } else { 1 << 21 };
    let mut i = 0;
    while i < args.len() {
        match args[i].as_str() {
            "--file" => {
                lines.extend(cfg::read_lines(&args[i + 1]));
                i += 2;
            }
            "--line" => {
                lines.push(args[i + 1].clone());
                i += 2;
            }
            "--cap" => {
                cap = args[i + 1].parse().unwrap();
                i += 2;
            }
            "--noop" => {
                i += 1;
            }
            other => panic!("unknown argument {other}"),
        }
    }
    evlog::init(cap);
    failpoint::install();
    let default_hook = std::panic::take_hook();
    std::panic::set_hook(Box::new(move |info| {
        if !evlog::enabled() {
            default_hook(info);
        }
    }));
    let stdout = std::io::stdout();
    let mut out = std::io::BufWriter::with_capacity(1 << 20, stdout.lock());
    let mut epoch = 0u64;
    for line in &lines {
        run_one(&mut out, line, &mut epoch);
    }
    let _ = writeln!(out, "DONE {}", lines.len());
    let _ = out.flush();
    if cfg!(miri) {
        // Let the pool's worker threads notice the closed channels and exit.
        for _ in 0..3000 {
            std::thread::yield_now();
        }
    }
}
