//! Global, preallocated, allocation-free event log.
//!
//! `slot = SEQ.fetch_add(1, Relaxed)`. The sequence number is a total order
//! consistent with every thread's program order and with every happens-before
//! edge the code under test creates (coherence of the single counter), while the
//! relaxed ordering adds no synchronisation of its own, so the monitor cannot
//! hide a data race from Miri / TSan.

use std::{
    alloc::{GlobalAlloc, Layout, System},
    cell::Cell,
    io::Write,
    sync::atomic::{AtomicBool, AtomicPtr, AtomicU32, AtomicU64, AtomicUsize, Ordering::*},
};

pub const GEN: u64 = 1;
pub const COUNT: u64 = 2;
pub const CALL_BEGIN: u64 = 3;
pub const CALL_END: u64 = 4;
pub const DROP_OUT: u64 = 5;
pub const DROP_IN: u64 = 6;
pub const TS_START: u64 = 7;
pub const TS_END: u64 = 8;
pub const ALLOC_OP: u64 = 9;
pub const POINT: u64 = 10;
pub const TASK_BEGIN: u64 = 11;
pub const TASK_END: u64 = 12;
pub const BCAST_CALL: u64 = 13;
pub const BCAST_RETURN: u64 = 14;
pub const THREAD_EXIT: u64 = 15;
pub const PANIC_INJECTED: u64 = 16;
pub const RUN_BEGIN: u64 = 17;
pub const RUN_END: u64 = 18;
pub const ONLINE_VIOLATION: u64 = 19;
pub const NOTE: u64 = 20;

pub const KIND_NAMES: [&str; 21] = [
    "?", "gen", "count", "call_begin", "call_end", "drop_out", "drop_in", "ts_start", "ts_end",
    "alloc_op", "point", "task_begin", "task_end", "bcast_call", "bcast_return", "thread_exit",
    "panic_injected", "run_begin", "run_end", "online_violation", "note",
];

#[repr(C)]
pub struct Slot {
    pub w: [AtomicU64; 4],
}

static LOG: AtomicPtr<Slot> = AtomicPtr::new(std::ptr::null_mut());
static CAP: AtomicUsize = AtomicUsize::new(0);
static SEQ: AtomicUsize = AtomicUsize::new(0);
static ENABLED: AtomicBool = AtomicBool::new(false);
static OVERFLOW: AtomicBool = AtomicBool::new(false);
static NEXT_TID: AtomicU32 = AtomicU32::new(1);

thread_local! {
    static TID: Cell<u32> = const { Cell::new(0) };
    /// Thread index as divan numbers it: 0 = main, N for `divan-N`, 0xFFFF other.
    static KIDX: Cell<u32> = const { Cell::new(u32::MAX) };
}

/// Allocates the log with the system allocator (never through the global one).
pub fn init(cap: usize) {
    let layout = Layout::array::<Slot>(cap).unwrap();
    let ptr = unsafe { System.alloc_zeroed(layout) } as *mut Slot;
    assert!(!ptr.is_null());
    LOG.store(ptr, SeqCst);
    CAP.store(cap, SeqCst);
}

pub fn enable(on: bool) {
    ENABLED.store(on, SeqCst);
}

pub fn enabled() -> bool {
    ENABLED.load(Relaxed)
}

/// Forgets all events. Only call while no other thread logs.
pub fn reset() {
    let n = SEQ.swap(0, SeqCst).min(CAP.load(SeqCst));
    let log = LOG.load(SeqCst);
    for i in 0..n {
        let slot = unsafe { &*log.add(i) };
        slot.w[0].store(0, Relaxed);
    }
    OVERFLOW.store(false, SeqCst);
}

pub fn len() -> usize {
    SEQ.load(SeqCst).min(CAP.load(SeqCst))
}

pub fn overflowed() -> bool {
    OVERFLOW.load(SeqCst)
}

#[inline]
pub fn tid() -> u32 {
    TID.try_with(|t| {
        let mut v = t.get();
        if v == 0 {
            v = NEXT_TID.fetch_add(1, Relaxed);
            t.set(v);
        }
        v
    })
    .unwrap_or(0)
}

/// Thread index as divan numbers it, from the thread's name.
pub fn kidx() -> u32 {
    KIDX.try_with(|k| {
        let mut v = k.get();
        if v == u32::MAX {
            v = compute_kidx();
            k.set(v);
        }
        v
    })
    .unwrap_or(0xFFFF)
}

fn compute_kidx() -> u32 {
    let cur = std::thread::current();
    match cur.name() {
        Some("main") => 0,
        Some(name) => match name.strip_prefix("divan-") {
            Some(rest) => {
                let mut n: u32 = 0;
                if rest.is_empty() {
                    return 0xFFFF;
                }
                for b in rest.bytes() {
                    if !b.is_ascii_digit() {
                        return 0xFFFF;
                    }
                    n = n.saturating_mul(10).saturating_add((b - b'0') as u32);
                }
                n.min(0xFFFE)
            }
            None => 0xFFFF,
        },
        None => 0xFFFF,
    }
}

/// Marks the current thread as the run's main thread regardless of its name.
pub fn set_main_thread() {
    let _ = KIDX.try_with(|k| k.set(0));
}

#[inline]
pub fn log(kind: u64, a: u64, b: u64, c: u64) {
    if !ENABLED.load(Relaxed) {
        return;
    }
    log_with(kind, kidx(), a, b, c);
}

/// Like [`log`] but never computes the thread index (safe inside an allocator,
/// during thread start-up and tear-down): uses it only if already known.
#[inline]
pub fn log_raw(kind: u64, a: u64, b: u64, c: u64) {
    if !ENABLED.load(Relaxed) {
        return;
    }
    let k = KIDX.try_with(|k| k.get()).unwrap_or(u32::MAX);
    log_with(kind, if k == u32::MAX { 0xFFFE } else { k }, a, b, c);
}

#[inline]
pub fn log_always(kind: u64, a: u64, b: u64, c: u64) {
    log_with(kind, kidx(), a, b, c);
}

#[inline]
fn log_with(kind: u64, k: u32, a: u64, b: u64, c: u64) {
    let log = LOG.load(Relaxed);
    if log.is_null() {
        return;
    }
    let i = SEQ.fetch_add(1, Relaxed);
    if i >= CAP.load(Relaxed) {
        OVERFLOW.store(true, Relaxed);
        return;
    }
    let slot = unsafe { &*log.add(i) };
    let w0 = kind | ((k as u64 & 0xFFFF) << 16) | ((tid() as u64) << 32);
    slot.w[1].store(a, Relaxed);
    slot.w[2].store(b, Relaxed);
    slot.w[3].store(c, Relaxed);
    slot.w[0].store(w0, Relaxed);
}

/// One decoded event.
#[derive(Clone, Copy, Debug)]
pub struct Event {
    pub seq: usize,
    pub kind: u64,
    pub k: u32,
    pub tid: u32,
    pub a: u64,
    pub b: u64,
    pub c: u64,
}

pub fn get(i: usize) -> Event {
    let log = LOG.load(SeqCst);
    let slot = unsafe { &*log.add(i) };
    let w0 = slot.w[0].load(SeqCst);
    Event {
        seq: i,
        kind: w0 & 0xFFFF,
        k: ((w0 >> 16) & 0xFFFF) as u32,
        tid: (w0 >> 32) as u32,
        a: slot.w[1].load(SeqCst),
        b: slot.w[2].load(SeqCst),
        c: slot.w[3].load(SeqCst),
    }
}

/// Writes all events as `E seq tid k kind a b c` lines. Kind 0 means the slot was
/// claimed but not yet published (reported, never interpreted).
pub fn dump(out: &mut dyn Write) {
    let n = len();
    for i in 0..n {
        let e = get(i);
        let _ = writeln!(out, "E {} {} {} {} {} {} {}", e.seq, e.tid, e.k, e.kind, e.a, e.b, e.c);
    }
    if overflowed() {
        let _ = writeln!(out, "OVERFLOW");
    }
}
