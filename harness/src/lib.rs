//! Runtime-monitoring harness for nvzqz/divan (see /verif/DESIGN.md).

pub mod allocs;
pub mod cfg;
pub mod clock;
pub mod evlog;
pub mod failpoint;
pub mod rng;
pub mod tracked;
