//! Virtual timestamp counter.
//!
//! Per-thread virtual time in ticks with a global floor: a `start` read sets
//! `own = max(own, GLOBAL_MAX)`, every read advances `own` by `delta` and returns
//! `floor(own / q) * q`; an `end` read publishes `GLOBAL_MAX`. Closures charge
//! scripted costs to the calling thread's clock. Every read is logged with the
//! value it returned.

use std::{
    cell::Cell,
    sync::atomic::{AtomicU64, Ordering::*},
};

use crate::evlog;

static GLOBAL_MAX: AtomicU64 = AtomicU64::new(0);
static DELTA: AtomicU64 = AtomicU64::new(1);
static STEP: AtomicU64 = AtomicU64::new(1);
/// After `LATE_AFTER` reads on a thread every read costs `LATE_DELTA` ticks (0 = never): the step
/// stays uniform while the cost of reading the clock changes (cold / warm, contended / not).
static LATE_AFTER: AtomicU64 = AtomicU64::new(0);
static LATE_DELTA: AtomicU64 = AtomicU64::new(0);
/// One end read in `REGRESS_EVERY` (0 = never; chosen pseudo-randomly per thread) returns a value `REGRESS_BY` ticks *below* the
/// start read it follows: a counter that is not synchronised across cores, read after a migration. Time itself goes on.
static REGRESS_EVERY: AtomicU64 = AtomicU64::new(0);
static REGRESS_BY: AtomicU64 = AtomicU64::new(0);
static REGRESS_SEED: AtomicU64 = AtomicU64::new(0);

thread_local! {
    static OWN: Cell<u64> = const { Cell::new(0) };
    static READS: Cell<u64> = const { Cell::new(0) };
    static ALL_READS: Cell<u64> = const { Cell::new(0) };
    static LAST_START: Cell<u64> = const { Cell::new(0) };
    static END_READS: Cell<u64> = const { Cell::new(0) };
}

pub fn configure_regress(every: u64, by: u64, seed: u64) {
    REGRESS_EVERY.store(every, SeqCst);
    REGRESS_BY.store(by, SeqCst);
    REGRESS_SEED.store(seed, SeqCst);
    let _ = END_READS.try_with(|r| r.set(0));
}

/// Read cost `delta` for the calling thread's first `after` reads from now on, `late_delta` afterwards.
pub fn configure_late(after: u64, late_delta: u64) {
    LATE_AFTER.store(after, SeqCst);
    LATE_DELTA.store(late_delta, SeqCst);
    let _ = ALL_READS.try_with(|r| r.set(0));
}

pub fn configure(delta: u64, step: u64) {
    DELTA.store(delta.max(1), SeqCst);
    STEP.store(step.max(1), SeqCst);
}

/// Starts a new epoch well above everything handed out so far, so that runs do
/// not see each other's readings.
pub fn new_epoch(base: u64) {
    GLOBAL_MAX.store(base, SeqCst);
    let _ = OWN.try_with(|o| o.set(base));
}

pub fn global_max() -> u64 {
    GLOBAL_MAX.load(SeqCst)
}

#[inline]
pub fn charge(ticks: u64) {
    let _ = OWN.try_with(|o| o.set(o.get().saturating_add(ticks)));
}

pub fn read(is_end: bool) -> u64 {
    let mut delta = DELTA.load(Relaxed);
    let step = STEP.load(Relaxed);
    let late_after = LATE_AFTER.load(Relaxed);
    if late_after != 0 {
        let n = ALL_READS
            .try_with(|r| {
                r.set(r.get() + 1);
                r.get()
            })
            .unwrap_or(0);
        if n > late_after {
            delta = LATE_DELTA.load(Relaxed).max(1);
        }
    }
    let own = OWN
        .try_with(|o| {
            let mut own = o.get();
            if !is_end {
                own = own.max(GLOBAL_MAX.load(Relaxed));
                if step > 1 {
                    // Time that passes between samples: a pseudo-random phase shift, so that
                    // a quantised clock is sampled at every phase (as a real one is).
                    let n = READS.try_with(|r| {
                        let n = r.get();
                        r.set(n + 1);
                        n
                    });
                    own = own.saturating_add(crate::rng::splitmix(n.unwrap_or(0)) % step);
                }
            }
            own = own.saturating_add(delta);
            o.set(own);
            own
        })
        .unwrap_or(0);
    if is_end {
        GLOBAL_MAX.fetch_max(own, Relaxed);
    }
    let mut value = (own / step) * step;
    if is_end {
        let every = REGRESS_EVERY.load(Relaxed);
        if every != 0 {
            let n = END_READS
                .try_with(|r| {
                    r.set(r.get() + 1);
                    r.get()
                })
                .unwrap_or(0);
            if crate::rng::mix3(REGRESS_SEED.load(Relaxed), n, evlog::kidx() as u64) % every == 0 {
                let start = LAST_START.try_with(|l| l.get()).unwrap_or(0);
                value = (start.saturating_sub(REGRESS_BY.load(Relaxed)) / step) * step;
            }
        }
    } else {
        let _ = LAST_START.try_with(|l| l.set(value));
    }
    evlog::log(if is_end { evlog::TS_END } else { evlog::TS_START }, value, own, 0);
    value
}

pub fn install(frequency: u64) {
    divan::verif::install_virtual_tsc(frequency, read);
}

pub fn remove() {
    divan::verif::remove_virtual_tsc();
    divan::verif::remove_virtual_os();
}

/// Installs the same source in place of the OS clock: one tick is one nanosecond.
pub fn install_os() {
    divan::verif::remove_virtual_tsc();
    divan::verif::install_virtual_os(read);
}
