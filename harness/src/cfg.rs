//! Line-based `key=value` configuration.

use std::collections::HashMap;

#[derive(Clone, Debug, Default)]
pub struct Cfg {
    pub map: HashMap<String, String>,
}

impl Cfg {
    pub fn parse(line: &str) -> Self {
        let mut map = HashMap::new();
        for tok in line.split_whitespace() {
            if let Some((k, v)) = tok.split_once('=') {
                map.insert(k.to_owned(), v.to_owned());
            }
        }
        Cfg { map }
    }

    pub fn str(&self, key: &str, default: &str) -> String {
        self.map.get(key).cloned().unwrap_or_else(|| default.to_owned())
    }

    pub fn has(&self, key: &str) -> bool {
        self.map.contains_key(key)
    }

    pub fn u64(&self, key: &str, default: u64) -> u64 {
        match self.map.get(key) {
            Some(v) => v.parse().unwrap_or_else(|_| panic!("bad u64 for {key}: {v}")),
            None => default,
        }
    }

    pub fn i64(&self, key: &str, default: i64) -> i64 {
        match self.map.get(key) {
            Some(v) => v.parse().unwrap_or_else(|_| panic!("bad i64 for {key}: {v}")),
            None => default,
        }
    }

    /// Comma-separated unsigned integers.
    pub fn list(&self, key: &str) -> Vec<u64> {
        match self.map.get(key) {
            Some(v) if !v.is_empty() => v
                .split(',')
                .map(|x| x.parse().unwrap_or_else(|_| panic!("bad list item for {key}: {x}")))
                .collect(),
            _ => Vec::new(),
        }
    }
}

/// Reads configuration lines from a file path or `-` (stdin); skips blanks and `#`.
pub fn read_lines(path: &str) -> Vec<String> {
    let text = if path == "-" {
        let mut s = String::new();
        std::io::Read::read_to_string(&mut std::io::stdin(), &mut s).unwrap();
        s
    } else {
        std::fs::read_to_string(path).unwrap_or_else(|e| panic!("cannot read {path}: {e}"))
    };
    text.lines()
        .map(|l| l.trim())
        .filter(|l| !l.is_empty() && !l.starts_with('#'))
        .map(|l| l.to_owned())
        .collect()
}
