"""History generators for the thread-pool driver."""
import random


def history(rng, maxn, maxlen):
    kind = rng.randrange(6)
    L = rng.randrange(1, maxlen + 1)
    if kind == 0:
        return sorted(rng.randrange(0, maxn + 1) for _ in range(L))
    if kind == 1:
        return sorted((rng.randrange(0, maxn + 1) for _ in range(L)), reverse=True)
    if kind == 2:
        n = rng.randrange(1, maxn + 1)
        return [n] * L
    if kind == 3:
        return [rng.choice([0, 1, maxn]) for _ in range(L)]
    if kind == 4:
        return [0] * rng.randrange(1, 3) + [rng.randrange(1, maxn + 1) for _ in range(L)] + [0]
    return [rng.randrange(0, maxn + 1) for _ in range(L)]


def line(idx, rng, maxn=8, maxlen=10, miri=False):
    hist = history(rng, maxn, maxlen)
    d = {"id": idx, "hist": ",".join(map(str, hist)), "pe": rng.choice([0, 1]), "seed": rng.randrange(1 << 30)}
    pan = []
    if rng.random() < 0.5:
        for b, n in enumerate(hist):
            for i in range(n + 1):
                if rng.random() < 0.15:
                    pan.append("%d:%d" % (b, i))
    if rng.random() < 0.12:
        # the caller's own call panics with a payload whose destructor panics too, while workers are still busy
        pan = [p for p in pan if not p.endswith(":0")] + ["%d:0" % b for b, n in enumerate(hist) if rng.random() < 0.5]
        if any(p.endswith(":0") for p in pan):
            d["bomb"] = 1
    if pan:
        d["panics"] = ",".join(pan)
    d["oalign"] = rng.choice([0, 0, 1])          # the task closure owns a u128 and a 64-byte-aligned block
    d["reuse"] = rng.choice([0, 1])          # clear and reuse one result vector across broadcasts, as the sample loop does
    r = rng.random()
    if r < 0.3 and len(hist) >= 2:
        d["callers"] = rng.choice([2, 2, 3])     # the pool is driven from several caller threads
        d["cmode"] = rng.choice([0, 0, 1])       # one after the other, or concurrently
    d["dmode"] = rng.choice([0, 0, 1, 2, 3, 3, 4]) if "bomb" not in d else rng.choice([2, 2, 3, 4])
    d["damount"] = rng.choice([5, 30, 120]) if not miri else rng.choice([1, 3])
    d["fpint"] = rng.choice([0, 20, 50, 80])
    d["fpseed"] = rng.randrange(1 << 30)
    if rng.random() < 0.25 and not miri:
        # delay between the last decrement and the unpark: leaves a stale wake-up token for the next broadcast
        d["fpmask"] = rng.choice([1 << 13, 1 << 3, (1 << 13) | (1 << 3), 1 << 12, 1 << 2])
        d["fpus"] = rng.choice([20, 100])
    return " ".join("%s=%s" % kv for kv in d.items())


def gen(tier, seed, count=None, maxn=8, maxlen=10, miri=False):
    rng = random.Random(seed * 7907 + 6)
    n = count or (160 if tier == "quick" else 6000)
    out = [line(i, rng, maxn=maxn, maxlen=maxlen, miri=miri) for i in range(n)]
    if count is None and not miri:
        # a few histories with a long idle gap in the middle (workers must still be there, with their indices, afterwards);
        # the calls before the gap finish at different times
        gaps = [300, 1200, 2600, 2600] if tier == "quick" else [300, 1200, 2600, 2600, 2600, 5200, 5200, 11000]
        for k, ms in enumerate(gaps):
            hist = rng.choice([[3, 3, 2, 3], [4, 2, 4, 4], [2, 2, 2], [5, 3, 5, 1, 5]])
            out.append("id=%d hist=%s pe=%d seed=%d reuse=1 dmode=%d damount=%d fpint=0 fpseed=1 gapat=%d gapms=%d" % (
                n + k, ",".join(map(str, hist)), rng.choice([0, 1]), rng.randrange(1 << 30), rng.choice([3, 4, 2]), rng.choice([30, 120]), rng.randrange(1, len(hist)), ms))
    if count is None and not miri:
        # several callers whose very first broadcasts meet on an empty pool and all have to grow it
        for k in range(24 if tier == "quick" else 400):
            c = rng.choice([2, 2, 3])
            w = rng.choice([2, 4, 4, 6])
            out.append("id=%d hist=%s pe=0 seed=%d reuse=0 callers=%d cmode=1 dmode=0 damount=5 fpint=0 fpseed=1" % (
                n + 300 + k, ",".join([str(w)] * c), rng.randrange(1 << 30), c))
    if count is None and not miri:
        # wide broadcasts (machine-word boundaries of any per-worker bookkeeping: 31, 32, 33, 63, 64, 65 auxiliary threads), with
        # workers that are late for the next hand-off
        for k in range(6 if tier == "quick" else 24):
            w = rng.choice([[31, 32, 33, 32], [64, 64, 63, 64], [65, 33, 65, 64], [32, 64, 32, 64, 1, 64]])
            out.append("id=%d hist=%s pe=%d seed=%d reuse=1 dmode=%d damount=30 fpint=%d fpseed=%d fpmask=%d fpus=%d" % (
                n + 200 + k, ",".join(map(str, w)), rng.choice([0, 1]), rng.randrange(1 << 30), rng.choice([0, 3, 4]), rng.choice([0, 30]), rng.randrange(1 << 30),
                rng.choice([1 << 14, 1 << 14, (1 << 14) | (1 << 13), 0]), rng.choice([100, 300])))
    if count is None and not miri:
        # very wide broadcasts (byte / 9-bit boundaries of any counter of outstanding workers: 255, 256, 257, 300, 512 auxiliary
        # threads) whose calls outlast the hand-off
        for k in range(4 if tier == "quick" else 16):
            w = [[3, 255, 1, 256, 1], [256, 1, 300, 2], [257, 256, 1, 1], [300, 2, 512, 1, 1]][k % 4]
            # (dmode 5: every pooled call waits until all pooled calls of its broadcast have begun)
            out.append("id=%d hist=%s pe=%d seed=%d reuse=1 dmode=%d damount=%d fpint=0 fpseed=1" % (
                n + 400 + k, ",".join(map(str, w)), rng.choice([0, 1]), rng.randrange(1 << 30), rng.choice([5, 5, 2]), rng.choice([120, 400])))
    if count is None and not miri:
        # a pooled call panics with a payload whose destructor panics; after a pause the same pool is used again, as wide and wider
        for k in range(4 if tier == "quick" else 24):
            w = rng.choice([[2, 2, 2, 3], [3, 3, 1, 3], [1, 2, 2, 4]])
            pb = rng.choice([0, 1])
            out.append("id=%d hist=%s pe=%d seed=%d reuse=0 dmode=0 damount=5 fpint=0 fpseed=1 wbomb=1 panics=%d:%d gapat=%d gapms=300" % (
                n + 500 + k, ",".join(map(str, w)), rng.choice([0, 1]), rng.randrange(1 << 30), pb, rng.randrange(1, w[pb] + 1), pb + 1))
    if count is None and not miri:
        # thread creation fails in the middle of a history, while a broadcast grows a pool that already has workers
        for k in range(4 if tier == "quick" else 40):
            first = rng.choice([1, 2, 3])
            hist = [first, first + rng.choice([1, 2, 4]), rng.choice([1, 2, first + 1]), first + 2]
            out.append("id=%d hist=%s pe=0 seed=%d reuse=0 dmode=0 damount=%d fpint=0 fpseed=1 spawnfail=1" % (
                n + 100 + k, ",".join(map(str, hist)), rng.randrange(1 << 30), rng.choice([30, 120])))
    if count is None and not miri:
        # a long streak at one width in which every worker is done before the caller's own call ends (so the caller never has to be
        # woken), then a broadcast of another width with a late worker: anything the pool learnt from the streak must not cost the
        # caller its wake-up
        for k in range(6 if tier == "quick" else 40):
            w = rng.choice([1, 2, 2, 3])
            w2 = rng.choice([x for x in (1, 2, 3, 4) if x != w])
            streak = rng.choice([300, 1100, 1100, 2100, 4200])
            out.append("id=%d hist=%d,%d,%d rep=%d pe=%d seed=%d reuse=%d dmode=1 damount=%d dmlast=2 fpint=0 fpseed=1 fplog=0" % (
                n + 600 + k, w, w2, w, streak, rng.choice([0, 1]), rng.randrange(1 << 30), rng.choice([0, 1]), rng.choice([5, 30])))
    return out
