"""Configuration generators for the sample-loop driver (loopdrv)."""
import random

ENTRY_NAMES = ["bench", "bench_local", "bench_values", "bench_local_values", "bench_refs", "bench_local_refs"]
ISHAPES = ["z", "zd", "s", "sd", "u"]
OSHAPES = ["z", "zd", "s", "sd", "c"]


def line(d):
    d = dict(d)
    novos = d.pop("_novos", False)
    if not novos and "tsc" not in d and isinstance(d.get("id"), int) and d["id"] % 4 == 3:
        # every fourth configuration runs the OS-timer path (Instant, the default timer) on the scripted clock: 1 tick = 1 ns
        d["tsc"] = 0
        d["vos"] = 1
    return " ".join("%s=%s" % (k, ",".join(map(str, v)) if isinstance(v, (list, tuple)) else v) for k, v in d.items() if v is not None)


def shapes_for(entry, rng, ishape=None, oshape=None):
    if entry < 2:
        return None, oshape or rng.choice(OSHAPES[:4])
    i = ishape or rng.choice(ISHAPES)
    if entry in (2, 3):
        o = oshape or rng.choice(OSHAPES)
    else:
        o = oshape or rng.choice(OSHAPES[:4])
        if o == "c":
            o = "sd"
    return i, o


def base_cfg(rng, idx, entry=None, T=None, s=None, n=None, tuned=False, test=False, small=False):
    entry = rng.randrange(6) if entry is None else entry
    ishape, oshape = shapes_for(entry, rng)
    d = {"id": idx, "entry": entry}
    if ishape:
        d["ishape"] = ishape
    d["oshape"] = oshape
    d["T"] = T if T is not None else rng.choice([1, 1, 2, 3, 4] if small else [1, 1, 2, 3, 4, 8, 16])
    if test:
        d["test"] = 1
    if not tuned:
        d["s"] = s if s is not None else rng.choice([1, 2, 3, 5, 7] if small else [1, 1, 2, 3, 5, 7, 16, 64])
    d["n"] = n if n is not None else rng.choice([1, 2, 3, 4, 5, 7] if small else [1, 2, 3, 5, 7, 9, 16, 33])
    d["seed"] = rng.randrange(1 << 30)
    d["cbase"] = rng.choice([1, 3, 10, 100, 1000])
    d["cstep"] = rng.choice([0, 0, 1, 7])
    d["cmod"] = rng.choice([1, 2, 3, 5])
    d["gcost"] = rng.choice([0, 1, 50])
    if rng.random() < 0.05:
        # the counter stands just below 2^63 when the run begins: readings on both sides of the top bit within one run
        d["base"] = 2 ** 63 - rng.randrange(1, 20000)
    d["dicost"] = rng.choice([0, 2, 30])
    d["docost"] = rng.choice([0, 2, 30])
    if entry >= 2 and rng.random() < 0.6:
        kinds = rng.sample([0, 1, 2, 3], rng.randrange(0, 5))
        if kinds:
            d["ic"] = sorted(kinds)
            if rng.random() < 0.4:
                # registration order is free, and registering a kind again replaces its earlier closure
                d["ic"] = list(kinds) + rng.sample(list(kinds), rng.randrange(0, len(kinds) + 1))
                rng.shuffle(d["ic"])
            d["icmul"] = rng.choice([1, 3, 1000])
            d["icadd"] = rng.choice([0, 5])
    if rng.random() < 0.3:
        d["bc"] = ",".join("%d:%d" % (k, rng.choice([0, 1, 7, 1 << 40])) for k in rng.sample([0, 1, 2, 3], rng.randrange(1, 3)))
    if rng.random() < 0.3:
        d["oc"] = ",".join("%d:%d" % (k, rng.choice([0, 1, 9, 12345])) for k in rng.sample([0, 1, 2, 3], rng.randrange(1, 3)))
    if ishape == "u" and rng.random() < 0.7:
        d["countas"] = sorted(rng.sample([0, 1, 2, 3], rng.randrange(1, 3)))
    if "bc" in d and ("ic" in d or "countas" in d) and rng.random() < 0.5:
        d["bclate"] = 1      # the constant counters are set after the per-input ones (same or other kinds)
    return d


ALLOC_SCRIPTS = ["", "a64,d", "a64", "a8,a16,a32,d,d,d", "z128,g256,s64,d", "a100,g100,d", "a64,g4096,s1,s0,d", "a16,a16,d,a16,a16", "a1,g2,g3,g4,s1,d",
                 # a peak reached by a plain allocation and left by a shrinking reallocation (with_capacity + shrink_to_fit)
                 "a4096,s64", "a4096,s64,d", "a100,z4000,s8,d,d", "z512,s1,a8,d,d"]


def add_allocs(d, rng, heavy=True):
    d["caops"] = rng.choice(ALLOC_SCRIPTS if heavy else ALLOC_SCRIPTS[:4])
    d["cafree"] = rng.choice([0, 1, 1])
    d["cathr"] = rng.choice([0, 1])
    d["cavar"] = rng.choice([0, 0, 3, 4, 7])
    d["caonly"] = rng.choice([0, 0, 0, 1, 2, 5])      # allocate only during a thread's first calls (lazy initialisation)
    d["gan"] = rng.choice([0, 1, 3])
    d["gasz"] = rng.choice([8, 24, 1000])
    d["dan"] = rng.choice([0, 1, 2])
    d["dasz"] = rng.choice([8, 40])
    d["can"] = rng.choice([0, 0, 1])
    if d.get("T", 1) > 1 and d["caops"] and rng.random() < 0.3:
        # only some threads allocate (one thread initialises a shared lazy value), and the threads differ in speed
        d["camask"] = rng.randrange(1, (1 << d["T"]) - 1)
        d["cthr"] = rng.choice([3, 7, 50])
        d["gan"] = d["dan"] = d["can"] = 0
    if rng.random() < 0.12:
        # same operations in two orders, alternating call by call (or every few calls): equal tallies, different peaks
        d.update({"caalt": 1, "caops": "a64,d", "cavar": rng.choice([1, 1, 2, 3]), "gan": 0, "dan": 0, "can": 0, "caonly": 0})
        d.pop("camask", None)
        return d
    if rng.random() < 0.15:
        # release-only traffic: the threads free blocks that the main thread allocated before the run and allocate
        # nothing themselves (draining a pre-filled pool), inside the calls, the generator or the drops
        d.update({"caops": "", "gan": 0, "dan": 0, "can": 0, "stash": 4096, "stashw": rng.choice([0, 0, 1, 2]), "stashsz": rng.choice([64, 1000])})
    elif rng.random() < 0.12:
        # nothing but reallocations to the same size, of blocks older than the run (one per thread): operations that move no byte
        d.update({"caops": "", "gan": 0, "dan": 0, "can": 0, "stash": 64, "stashw": 0, "stashe": 1, "stashsz": rng.choice([64, 1000])})
    return d


def gen_c01(tier, seed, native=True):
    rng = random.Random(seed * 7919 + 1)
    out = []
    idx = 0
    # systematic: every entry x shape pair at a boundary grid
    grid_s = [0, 1, 2, 3, 5, 8] if tier == "quick" else [0, 1, 2, 3, 5, 7, 10, 64]
    grid_n = [0, 1, 2, 3] if tier == "quick" else [0, 1, 2, 3, 5, 100]
    for entry in range(6):
        ishapes = [None] if entry < 2 else ISHAPES
        oshapes = OSHAPES[:4] if entry not in (2, 3) else OSHAPES
        for i in ishapes:
            for o in oshapes:
                reps = 2 if tier == "quick" else 30
                for _ in range(reps):
                    d = base_cfg(rng, idx, entry=entry, small=(tier == "quick"))
                    if i:
                        d["ishape"] = i
                    d["oshape"] = o
                    if i != "u":
                        d.pop("countas", None)
                    d["s"] = rng.choice(grid_s)
                    d["n"] = rng.choice(grid_n)
                    if rng.random() < 0.15:
                        d["test"] = 1
                    if rng.random() < 0.15:
                        d.pop("s")
                        d["n"] = rng.choice([1, 2, 3])
                        d["q"] = rng.choice([1, 4])
                        d["cbase"] = rng.choice([5, 40, 300])
                    if rng.random() < 0.5:
                        add_allocs(d, rng, heavy=False)
                    if "s" in d and rng.random() < 0.08:
                        d["tsc"] = 0      # the OS timer path (not scriptable): lifecycle / count oracles only
                        d["n"] = min(d["n"], 3)
                    out.append(line(d))
                    idx += 1
    # tuned runs on several threads with plain-data inputs and outputs (nothing to drop, so only the identity of the values tells
    # whose they are): long tuning rounds in which the threads overlap
    for k in range(16 if tier == "quick" else 300):
        entry = rng.choice([2, 4])
        d = {"id": idx, "entry": entry, "T": rng.choice([2, 2, 3, 4]), "n": rng.choice([2, 4, 8]), "seed": rng.randrange(1 << 30), "cbase": rng.choice([1, 2]),
             "q": 1, "delta": 1, "freq": 10 ** 9, "ishape": rng.choice(["s", "u"]), "oshape": rng.choice(["z", "s"]), "gcost": rng.choice([0, 1]), "fplog": 0,
             "_novos": k % 4 != 3}
        out.append(line(d))
        idx += 1
    # a timestamp counter that now and then reads *lower* at the end of a timed section than at its start (cores whose counters are
    # not synchronised): the sample is worth 0, and nothing about the values' lifecycle changes
    for k in range(48 if tier == "quick" else 1500):
        entry = rng.randrange(6)
        d = base_cfg(rng, idx, entry=entry, small=True)
        d["s"] = rng.choice([1, 2, 3, 5])
        d["n"] = rng.choice([2, 3, 4, 6])
        d["T"] = rng.choice([1, 1, 1, 2, 3])
        d["regress"] = "%d,%d" % (rng.choice([1, 2, 3]), rng.choice([1, 50, 5000]))
        d["_novos"] = True
        d.pop("tsc", None)
        if rng.random() < 0.15:
            d["test"] = 1
        out.append(line(d))
        idx += 1
    # panic plans: the benchmarked function panics at every call index of the first two rounds; all threads alike
    npanic = 60 if tier == "quick" else 2000
    for _ in range(npanic):
        entry = rng.randrange(6)
        d = base_cfg(rng, idx, entry=entry, small=True)
        d["s"] = rng.choice([1, 2, 3])
        d["n"] = rng.choice([2, 3, 4])
        T = d["T"]
        if entry in (1, 3, 5):
            T = 1
        phase = 2
        index = rng.randrange(0, 2 * d["s"])
        d["panic"] = "%d,%d,%d" % (phase, 255, index)
        d["T"] = T
        out.append(line(d))
        idx += 1
    # panics in other phases, single-threaded (multi-thread subsets belong to C08)
    for _ in range(npanic // 2):
        entry = rng.choice([2, 3, 4, 5])
        d = base_cfg(rng, idx, entry=entry, T=1, small=True)
        d["s"] = rng.choice([1, 2, 3])
        d["n"] = rng.choice([2, 3])
        d["ishape"] = rng.choice(["zd", "sd", "s"])
        d["oshape"] = rng.choice(["zd", "sd"] + (["c"] if entry in (2, 3) else []))
        d.pop("countas", None)
        if "ic" not in d:
            d["ic"] = [0]
        phase = rng.choice([0, 1, 3, 4])
        d["panic"] = "%d,%d,%d" % (phase, 0, rng.randrange(0, 2 * d["s"]))
        out.append(line(d))
        idx += 1
    return out


def gen_c01_miri(tier, seed):
    """Reduced matrix for the interpreter: s <= 3, n <= 3, T <= 3."""
    rng = random.Random(seed * 104729 + 3)
    out = []
    idx = 0
    combos = []
    for entry in range(6):
        ishapes = [None] if entry < 2 else ["z", "zd", "s", "sd"]
        oshapes = OSHAPES[:4] if entry not in (2, 3) else OSHAPES
        for i in ishapes:
            for o in oshapes:
                combos.append((entry, i, o))
    rng.shuffle(combos)
    take = combos[:32] if tier == "quick" else combos
    for (entry, i, o) in take:
        d = {"id": idx, "entry": entry, "oshape": o, "T": rng.choice([1, 2, 3]), "s": rng.choice([1, 2, 3]), "n": rng.choice([1, 2, 3]),
             "cbase": 10, "seed": rng.randrange(1 << 20), "fplog": 0}
        if i:
            d["ishape"] = i
            if rng.random() < 0.5:
                d["ic"] = [rng.randrange(4)]
        if rng.random() < 0.2:
            d["test"] = 1
        if rng.random() < 0.25:
            d["panic"] = "2,255,%d" % rng.randrange(0, d["s"] + 1)
        out.append(line(d))
        idx += 1
    return out


def gen_c02(tier, seed):
    rng = random.Random(seed * 6007 + 2)
    out = []
    N = 400 if tier == "quick" else 30000
    for idx in range(N):
        d = base_cfg(rng, idx, small=(tier == "quick" or rng.random() < 0.7))
        add_allocs(d, rng)
        if rng.random() < 0.1:
            d.pop("s", None)
            d["n"] = rng.choice([1, 2, 3])
            d["q"] = rng.choice([1, 3])
            d["cbase"] = rng.choice([7, 60, 500])
        if rng.random() < 0.05:
            d["test"] = 1
        elif "s" in d and d["caops"] and rng.random() < 0.1:
            # the real OS clock: nothing scripted, so the real calibration / overhead code runs (once per process and timer)
            d["tsc"] = 0
            d["n"] = min(d["n"], 5)
        elif "s" in d and rng.random() < 0.25:
            # a clock too coarse to see the sample: start and end readings are often identical
            d["q"] = rng.choice([100, 10 ** 4, 10 ** 6])
            d["cbase"] = rng.choice([0, 1, 3])
            d["cstep"] = 0
        out.append(line(d))
    out += gen_late_alloc(tier, seed, N)
    return out


def gen_late_alloc(tier, seed, first_id=0):
    """Threads whose first 8-20 rounds make no allocator request at all and whose later rounds do (a cache that starts to fill late,
    amortised growth): every later sample still carries its own record. Explicit sample sizes (many rounds) and tuned runs."""
    rng = random.Random(seed * 6011 + 22)
    out = []
    for k in range(12 if tier == "quick" else 200):
        T = rng.choice([1, 1, 2, 3])
        entry = rng.choice([0, 0, 2, 4])
        d = {"id": first_id + k, "entry": entry, "T": T, "seed": rng.randrange(1 << 30), "cbase": rng.choice([10, 100]), "fplog": 0,
             "oshape": "z", "caops": rng.choice(["a64,d", "a64", "a8,a16,d,d", "a4096,s64,d"]), "cafree": 1, "cavar": rng.choice([0, 3]), "_novos": k % 3 != 0}
        if entry >= 2:
            d["ishape"] = "s"
        if k % 4 == 3:
            # tuned: 1, 2, 4, ... 128 iterations are eight quiet rounds (255 calls); allocation starts somewhere after them
            d.update({"n": rng.choice([2, 3]) * T, "q": 1, "delta": 1, "cbase": 1, "freq": 10 ** 9, "cafrom": rng.choice([255, 300, 511, 600])})
        else:
            s_ = rng.choice([1, 1, 2])
            quiet = rng.choice([8, 9, 10, 13, 20])
            d.update({"s": s_, "n": T * (quiet + rng.choice([1, 3, 6])), "cafrom": s_ * quiet + rng.randrange(s_)})
        out.append(line(d))
    return out


def gen_c03(tier, seed):
    rng = random.Random(seed * 4001 + 3)
    out = []
    idx = 0
    ns = list(range(0, 10)) + [16, 99, 100, 101, -1] + ([1000] if tier == "thorough" else [])
    ss = [0, 1, 2, 3, 64] if tier == "thorough" else [0, 1, 2, 3, 16]
    Ts = list(range(1, 10)) + [16]
    combos = [(n, s, T) for n in ns for s in ss for T in Ts]
    rng.shuffle(combos)
    take = combos[:350] if tier == "quick" else combos * 4
    for (n, s, T) in take:
        entry = rng.randrange(6)
        d = {"id": idx, "entry": entry, "T": T, "s": s, "cbase": rng.choice([1, 20]), "seed": rng.randrange(1 << 20), "fplog": 0}
        if n >= 0:
            d["n"] = n
        i, o = shapes_for(entry, rng)
        if i:
            d["ishape"] = i
        d["oshape"] = o
        if (n < 0 or n >= 99) and s > 3:
            d["s"] = rng.choice([1, 2])
        if rng.random() < 0.3 and entry >= 2:
            d["ic"] = [rng.randrange(4)]
        if rng.random() < 0.1 and d["s"] <= 3 and 0 <= n <= 16:
            d["tsc"] = 0
        elif rng.random() < 0.4:
            # coarse or slow clocks: many (or all) samples read zero elapsed ticks; the counts must not depend on the readings
            d["q"] = rng.choice([8, 100, 10000, 10 ** 6])
            d["delta"] = rng.choice([1, 1, 2])
            d["cbase"] = rng.choice([0, 1, 20])
            d["freq"] = rng.choice([10 ** 9, 10 ** 6, 1, 2_999_999_999])
        out.append(line(d))
        idx += 1
    # sample counts far above anything a buffer would be pre-sized for (powers of two and their neighbours)
    for n in ([65536, 65537, 70001] if tier == "quick" else [4096, 4097, 65535, 65536, 65537, 70001, 131073, 300000]):
        for T in ([1, 3] if tier == "quick" else [1, 2, 3, 7]):
            d = {"id": idx, "entry": rng.choice([0, 0, 2]), "T": T, "s": 1, "n": n, "cbase": 1, "seed": rng.randrange(1 << 20), "fplog": 0, "oshape": "z"}
            if d["entry"] == 2:
                d["ishape"] = rng.choice(["z", "s"])
            out.append(line(d))
            idx += 1
    # sample_count x sample_size far beyond 32 bits (each option is a u32 and fine alone), cut short by a tiny max_time: the
    # first round always runs
    for (n_, s_) in ([(65536, 65536), (1 << 20, 1 << 12), (4294967295, 3)] if tier == "quick" else [(65536, 65536), (1 << 20, 1 << 12), (70000, 70000), (98304, 131072), (4294967295, 3)]):
        d = {"id": idx, "entry": 0, "T": 1, "s": s_, "n": n_, "cbase": 1, "freq": 10 ** 9, "seed": rng.randrange(1 << 20), "fplog": 0, "oshape": "z", "max": 1,
             "_novos": True}
        if s_ > 200000:
            continue
        out.append(line(d))
        idx += 1
        if tier == "thorough":
            out.append(line(dict(d, id=idx, test=1)))
            idx += 1
    # samples that last months of scripted time: the total passes 2^64 ps (213.5 days) long before the configured count is
    # reached; no limit is set (or one that cannot be reached), so the counts stay exact
    for _ in range(8 if tier == "quick" else 200):
        T = rng.choice([1, 2, 3])
        d = {"id": idx, "entry": rng.choice([0, 2]), "T": T, "s": rng.choice([1, 2]), "n": rng.choice([5, 7]), "freq": rng.choice([1, 1000]),
             "seed": rng.randrange(1 << 20), "fplog": 0, "oshape": "z", "skip": rng.choice([-1, 1, 0]), "_novos": rng.random() < 0.5}
        d["cbase"] = 10 ** 7 * d["freq"] * rng.choice([1, 3])          # 10^7 (or 3*10^7) seconds per call
        if d["entry"] == 2:
            d["ishape"] = "s"
        if rng.random() < 0.4:
            d["max"] = 18446744073709551615 * 10 ** 9          # Duration::MAX
        out.append(line(d))
        idx += 1
    # a max_time that is set but never reached (with and without skip_ext_time): the counts must still be exact
    for _ in range(40 if tier == "quick" else 1500):
        T = rng.choice([1, 2, 2, 3, 4, 8])
        s_ = rng.choice([1, 2, 3])
        per = rng.choice([2, 3, 5, 9])
        d = {"id": idx, "entry": rng.choice([0, 0, 2, 4]), "T": T, "s": s_, "n": T * per - rng.randrange(T), "cbase": 1000, "freq": 10 ** 9, "seed": rng.randrange(1 << 20),
             "fplog": 0, "oshape": rng.choice(["z", "s"]), "skip": rng.choice([1, 1, 0, -1]), "max": int(per * (s_ * 1000 + 10) * rng.choice([1.5, 1.9, 3]))}
        if d["entry"] >= 2:
            d["ishape"] = rng.choice(["z", "s", "sd"])
        out.append(line(d))
        idx += 1
    # test mode and zero budgets
    for _ in range(60 if tier == "quick" else 3000):
        entry = rng.randrange(6)
        d = {"id": idx, "entry": entry, "T": rng.choice(Ts), "cbase": 5, "seed": rng.randrange(1 << 20), "fplog": 0}
        i, o = shapes_for(entry, rng)
        if i:
            d["ishape"] = i
        d["oshape"] = o
        kind = rng.randrange(4)
        if kind == 0:
            d["test"] = 1
            if rng.random() < 0.5:
                d["s"] = rng.choice([1, 2, 5, 100])
            if rng.random() < 0.5:
                d["n"] = rng.choice([1, 3, 100])
        elif kind == 1:
            d["n"] = 0
            if rng.random() < 0.5:
                d["s"] = rng.choice([1, 4])
            if rng.random() < 0.3:
                d["test"] = 1
        elif kind == 2:
            d["s"] = 0
            d["n"] = rng.choice([1, 5])
            if rng.random() < 0.3:
                d["test"] = 1
        else:
            d["max"] = 0
            d["s"] = rng.choice([1, 3])
            d["n"] = rng.choice([1, 5])
            if rng.random() < 0.3:
                d.pop("s")
        out.append(line(d))
        idx += 1
    return out


def gen_c04(tier, seed):
    rng = random.Random(seed * 3001 + 4)
    out = []
    N = 1500 if tier == "quick" else 60000
    for idx in range(N):
        entry = rng.randrange(6)
        T = rng.choice([1, 1, 2, 3, 4])
        d = {"id": idx, "entry": entry, "T": T, "seed": rng.randrange(1 << 30), "fplog": 0}
        i, o = shapes_for(entry, rng)
        if i:
            d["ishape"] = i
        d["oshape"] = o
        freq = rng.choice([10 ** 12, 10 ** 9, 10 ** 6, 1000, 1, 3, 2_999_999_999, 10 ** 10])
        if idx % 4 == 3:
            # the OS-timer path on the scripted clock (1 tick = 1 ns): the limits below are computed for that rate
            freq = 10 ** 9
            d["tsc"], d["vos"] = 0, 1
        d["freq"] = freq
        d["delta"] = rng.choice([1, 1, 2, 5])
        d["q"] = rng.choice([1, 1, 1, 4, 10])
        s = rng.choice([1, 1, 2, 3, 5])
        n = rng.choice([0, 1, 2, 3, 5, 8, 12])
        d["s"] = s
        d["n"] = n
        cbase = rng.choice([0, 1, 5, 50, 1000, 10 ** 6])
        d["cbase"] = cbase
        d["cstep"] = rng.choice([0, 0, 1, 13])
        d["cmod"] = rng.choice([1, 2, 3])
        d["cthr"] = rng.choice([0, 0, 3])
        d["cnoise"] = rng.choice([0, 0, 5, 100])
        d["gcost"] = rng.choice([0, 0, 10, 10 ** 5])
        d["dicost"] = rng.choice([0, 0, 10, 10 ** 4])
        d["docost"] = rng.choice([0, 0, 10, 10 ** 4])
        d["skip"] = rng.choice([-1, -1, 0, 1, 1])
        # one round advances the clock by roughly this many picoseconds (lower bound used to keep runs bounded)
        per_round_ticks = max(1, s * cbase + d["delta"] * 2)
        per_round_ps = max(1, per_round_ticks * 10 ** 12 // freq)
        timed_ps = max(1000, (s * cbase + d["delta"]) * 10 ** 12 // freq)
        unit_ps = timed_ps if d["skip"] == 1 else per_round_ps

        def ns_for_rounds(k, jitter=True):
            ps = unit_ps * k
            ns = ps // 1000
            if jitter:
                ns += rng.choice([0, 0, 1, -1])
            return max(0, ns)

        rounds_target = rng.choice([0, 1, 2, 3, 5, 10, 40, 150])
        which = rng.randrange(6)
        if which == 0:
            pass  # no limits
        elif which == 1:
            d["max"] = ns_for_rounds(rounds_target)
        elif which == 2:
            d["min"] = ns_for_rounds(rounds_target)
        elif which == 3:
            d["min"] = ns_for_rounds(rounds_target)
            d["max"] = ns_for_rounds(rng.choice([0, 1, 2, 3, 5, 10, 40, 150]))
        elif which == 4:
            d["min"] = rng.choice([0, 1]) if unit_ps >= 10 else 0
            d["max"] = rng.choice([0, 1, 10 ** 30])
        else:
            d["max"] = rng.choice([10 ** 30, 18446744073709551615 * 10 ** 9])
            d["min"] = ns_for_rounds(rounds_target)
        if rng.random() < 0.12 and cbase >= 5:
            # the same rule while the sample size is tuned automatically (the budget counts from before tuning)
            d.pop("s")
            d["q"] = 1
            d["delta"] = 1
            d["n"] = min(n, 5)
            if rng.random() < 0.5:
                # ... on a coarse clock (precision well above 1 ns): the first tuning rounds read 0 ticks, and the limit
                # is a small multiple of the precision, i.e. it falls among those rounds or shortly after them
                d["q"] = rng.choice([4, 10, 64])
                d["cbase"] = rng.choice([1, 1, 2, 5, 50])
                d["cnoise"] = 0
                d["freq"] = freq = rng.choice([10 ** 9, 10 ** 6, 10 ** 10, 2_999_999_999, 10 ** 8])
                d["skip"] = rng.choice([1, 1, 1, 0, -1])
                prec_ns = max(1, d["q"] * 10 ** 12 // freq // 1000)
                d.pop("min", None)
                d.pop("max", None)
                lim = prec_ns * rng.choice([1, 2, 3, 4, 5, 6, 8, 12, 50, 150, 400]) + rng.choice([0, 0, 1, -1])
                d[rng.choice(["min", "max", "max"])] = max(0, lim)
                if "max" not in d:
                    d["max"] = max(lim, prec_ns) * rng.choice([1, 2, 1000])
        out.append(line(d))
    # limits that the true elapsed time meets *exactly* at a round boundary, on counters whose tick is not a whole number of
    # picoseconds: the elapsed time is one interval (last end reading - first start reading) converted once, so a limit of exactly that
    # many nanoseconds is reached in that round and not one round later
    for k in range(120 if tier == "quick" else 4000):
        freq = rng.choice([3 * 10 ** 9, 2_400_000_000, 2_999_999_999, 700_000_000, 1_500_000_000, 3_600_000_000, 999_999_937])
        delta = rng.choice([1, 1, 2])
        s_ = rng.choice([1, 1, 2, 3])
        cbase = rng.choice([0, 1, 2, 7, 48, 98, 333])
        p_ticks = s_ * cbase + 2 * delta
        cands = list(range(2, 90))
        rng.shuffle(cands)
        pick = None
        for R in cands:
            truth = R * p_ticks * 10 ** 12 // freq
            if truth >= 1000 and truth % 1000 < min(R, 40):
                pick = (R, truth // 1000)
                break
        if pick is None:
            continue
        R, lim_ns = pick
        entry = rng.randrange(6)
        d = {"id": N + k, "entry": entry, "T": 1, "seed": rng.randrange(1 << 30), "fplog": 0, "freq": freq, "delta": delta, "q": 1, "s": s_,
             "cbase": cbase, "cstep": 0, "cmod": 1, "cthr": 0, "cnoise": 0, "gcost": 0, "dicost": 0, "docost": 0, "skip": rng.choice([-1, 0]), "_novos": True}
        i, o = shapes_for(entry, rng)
        if i:
            d["ishape"] = i
        d["oshape"] = o
        if rng.random() < 0.5:
            d["max"] = lim_ns
            d["n"] = R + rng.choice([1, 5, 50])
        else:
            d["min"] = lim_ns
            d["n"] = rng.choice([1, 2, max(1, R - 1)])
        out.append(line(d))
    out += gen_budget_conversion(tier, seed, first_id=2 * N)
    return out


def gen_budget_conversion(tier, seed, first_id=0):
    """Time limits whose Duration -> picosecond conversion is put on a knife edge: a 1 ns clock (OS timer or a 1 GHz counter), rounds of
    exactly p ns, and a limit of D = r*p + 1 ns, so the elapsed time after round r stands one nanosecond below the limit. D is taken
    from the values for which (D / 1e9) * 1e9 computed in binary floating point falls below D (about 2% of all values): a limit that
    travels through f64 on its way to picoseconds comes out 1 ns short and the run stops a round early (or late, for min_time)."""
    rng = random.Random(seed * 4001 + 44)
    out = []
    want = 60 if tier == "quick" else 2000
    tries = 0
    while len(out) < want and tries < want * 400:
        tries += 1
        r = rng.choice([2, 3, 4, 5, 8, 13, 20])
        pticks = rng.choice([3, 4, 7, 10, 33, 100, 1000, 4999, rng.randrange(3, 10 ** 6), rng.randrange(3, 10 ** 8)])
        D = r * pticks + 1
        secs, nanos = divmod(D, 10 ** 9)
        as_f64 = float(secs) + float(nanos) / 1e9
        if int(as_f64 * 1e9) >= D:
            continue
        k = len(out)
        d = {"id": first_id + k, "entry": rng.choice([0, 0, 1, 2, 4]), "T": 1, "seed": rng.randrange(1 << 30), "fplog": 0, "freq": 10 ** 9, "delta": 1, "q": 1,
             "s": 1, "cbase": pticks - 2, "cstep": 0, "cmod": 1, "cthr": 0, "cnoise": 0, "gcost": 0, "dicost": 0, "docost": 0, "skip": rng.choice([-1, 0]),
             "oshape": "z"}
        if d["entry"] >= 2:
            d["ishape"] = "s"
        if k % 2 == 0:
            d["tsc"], d["vos"] = 0, 1        # the OS timer on the scripted source
        else:
            d["_novos"] = True
        if k % 3 != 2:
            d["max"] = D
            d["n"] = r + rng.choice([2, 5])
        else:
            d["min"] = D
            d["n"] = rng.choice([1, 2])
        out.append(line(d))
    return out


def gen_c05(tier, seed):
    rng = random.Random(seed * 2003 + 5)
    out = []
    N = 1500 if tier == "quick" else 60000
    for idx in range(N):
        entry = rng.randrange(6)
        T = rng.choice([1, 1, 1, 2, 3, 4])
        d = {"id": idx, "entry": entry, "T": T, "seed": rng.randrange(1 << 30), "fplog": 0}
        i, o = shapes_for(entry, rng)
        if i:
            d["ishape"] = i
        d["oshape"] = o
        d["freq"] = rng.choice([10 ** 12, 10 ** 12, 10 ** 9, 1, 7, 10 ** 10])
        d["delta"] = rng.choice([1, 1, 3])
        d["q"] = rng.choice([1, 1, 1, 5])
        d["s"] = rng.choice([1, 1, 1, 2, 3, 7])
        d["n"] = rng.choice([0, 1, 2, 3, 4, 5, 6, 7, 8, 15, 16, 31])
        if rng.random() < 0.3:
            # larger sample counts, even and odd, on both sides of library thresholds (insertion-sort cut-offs, chunk sizes)
            d["n"] = rng.choice([17, 18, 19, 20, 21, 22, 24, 32, 33, 34, 48, 50, 63, 64, 65, 100, 128, 129, 200, 256, 257])
            d["s"] = rng.choice([1, 1, 2])
        mode = rng.randrange(5)
        if mode == 0:      # heavy ties
            d["clist"] = [rng.choice([5, 5, 9]) for _ in range(rng.randrange(1, 5))]
        elif mode == 1:    # arbitrary multiset
            d["clist"] = [rng.randrange(0, 1000) for _ in range(rng.randrange(1, 40) if d["n"] < 17 else rng.choice([d["n"], d["n"] * 2 + 1, 37, 101]))]
        elif mode == 2:    # huge values
            d["clist"] = [rng.choice([0, 1, 2 ** 40, 2 ** 61, 2 ** 62 - 5]) for _ in range(rng.randrange(1, 6))]
            d["freq"] = rng.choice([1, 2, 1000])
            d["n"] = rng.choice([1, 2, 3])
            d["T"] = 1
            d["s"] = 1
            d["gcost"] = d["dicost"] = d["docost"] = 0
        elif mode == 3:    # zero durations
            d["cbase"] = 0
            d["q"] = rng.choice([8, 100])
        else:
            d["cbase"] = rng.choice([1, 10, 100])
            d["cnoise"] = rng.choice([0, 3, 1000])
            d["cthr"] = rng.choice([0, 7])
        if rng.random() < 0.6:
            add_allocs(d, rng)
        if entry >= 2 and rng.random() < 0.6:
            d["ic"] = sorted(rng.sample([0, 1, 2, 3], rng.randrange(1, 4)))
            d["icmul"] = rng.choice([1, 3, 1000, 2 ** 40])
            d["icmod"] = rng.choice([1 << 20, 1 << 50, 7])
            if rng.random() < 0.2:
                # counter values over the whole 64-bit range: a sample's sum exceeds 2^64
                d["icmul"] = rng.choice([0x9E3779B97F4A7C15, 2 ** 63 + 1, 2 ** 62 + 12345])
                d["icadd"] = rng.choice([0, 2 ** 63, 2 ** 64 - 7])
                d["icmod"] = rng.choice([2 ** 64 - 1, 2 ** 63, 2 ** 64 - 59])
        if rng.random() < 0.3:
            d["bc"] = ",".join("%d:%d" % (k, rng.choice([0, 1, 7, 1 << 40])) for k in rng.sample([0, 1, 2, 3], rng.randrange(1, 3)))
        if rng.random() < 0.3:
            d["oc"] = ",".join("%d:%d" % (k, rng.choice([0, 1, 9, 12345])) for k in rng.sample([0, 1, 2, 3], rng.randrange(1, 3)))
        if d.get("ishape") == "u" and rng.random() < 0.7:
            d["countas"] = sorted(rng.sample([0, 1, 2, 3], rng.randrange(1, 3)))
        if ("ic" in d or "countas" in d) and rng.random() < 0.25:
            # a constant counter set after the per-input counters, sharing at least one kind with them
            kinds = set(d.get("ic", [])) | set(d.get("countas", []))
            ks = set(rng.sample(sorted(kinds), rng.randrange(1, len(kinds) + 1))) | ({rng.randrange(4)} if rng.random() < 0.5 else set())
            d["bc"] = ",".join("%d:%d" % (k, rng.choice([0, 1, 7, 77, 1 << 40])) for k in sorted(ks))
            d["bclate"] = 1
        r = rng.random()
        if r < 0.05:
            d["max"] = 0
        elif r < 0.1:
            d["s"] = 0
        elif r < 0.2:
            # tuned
            d.pop("s")
            d["n"] = rng.choice([0, 1, 2, 3, 5])
            d.pop("clist", None)
            d["cbase"] = rng.choice([3, 25, 400])
            d["q"] = rng.choice([1, 2, 6])
            d["delta"] = 1
            d["freq"] = rng.choice([10 ** 12, 10 ** 9])
            if rng.random() < 0.6:
                add_allocs(d, rng)
                d["caonly"] = rng.choice([1, 2, 3])
                if not d["caops"]:
                    d["caops"] = "a64,d"
            if rng.random() < 0.4:
                # the time budget runs out while the sample size is still being tuned: what is reported are the samples of
                # the last tuning round, at the size they really ran with
                tick_ns = max(1, 10 ** 9 // d["freq"])
                d["max"] = max(1, d["cbase"] * tick_ns * rng.choice([1, 2, 5, 11, 30, 70]) // max(1, 1000 // max(1, 10 ** 12 // d["freq"])))
                d["skip"] = rng.choice([-1, -1, 1])
                d["gcost"] = rng.choice([0, 0, 1000])
        out.append(line(d))
    return out


def gen_c08_order(tier, seed):
    """Multi-thread runs with one thread heavily delayed in exactly the phase a missing barrier would expose."""
    rng = random.Random(seed * 1009 + 8)
    out = []
    N = 64 if tier == "quick" else 600
    for idx in range(N):
        entry = rng.choice([0, 2, 4])
        T = rng.choice([2, 2, 3, 4, 8] if tier == "quick" else [2, 3, 4, 8, 16])
        d = {"id": idx, "entry": entry, "T": T, "seed": rng.randrange(1 << 30), "fplog": 1}
        if entry >= 2:
            d["ishape"] = rng.choice(["zd", "sd", "sd", "s"])
            d["oshape"] = rng.choice(["zd", "sd", "sd"] + (["c"] if entry == 2 else []))
            if rng.random() < 0.5:
                d["ic"] = [rng.randrange(4)]
        else:
            d["oshape"] = rng.choice(["zd", "sd"])
        d["s"] = rng.choice([1, 2, 3])
        d["n"] = T * rng.choice([1, 2, 3])
        d["cbase"] = 10
        victim = rng.randrange(T)
        mode = rng.randrange(5)
        us = rng.choice([200, 400, 800])
        if mode == 0 and entry >= 2:
            d["skew"] = "0,%d,%d" % (victim, us)      # slow generator on one thread
        elif mode == 1:
            d["skew"] = "2,%d,%d" % (victim, us)      # slow call on one thread: others must not start dropping
        elif mode == 2:
            d["fpmask"] = (1 << 21)                   # everyone dawdles between the first barrier and the clear
            d["fpus"] = rng.choice([50, 150])
            d["fpint"] = 40
            d["fpseed"] = rng.randrange(1 << 20)
        elif mode == 3:
            d["fpint"] = rng.choice([30, 60])         # random jitter at all barrier failpoints
            d["fpseed"] = rng.randrange(1 << 20)
        else:
            d["skew"] = "%d,%d,%d" % (rng.choice([3, 4]), victim, us)
        add_allocs(d, rng, heavy=False)
        d["cathr"] = 1
        if not d["caops"]:
            d["caops"] = "a64,d"
        if rng.random() < 0.2:
            d["test"] = 1        # test mode takes the same timestamps, clears the same tallies and defers the same drops
        elif rng.random() < 0.2:
            # the sample size is tuned (several discarded rounds) and a thread allocates only in its first calls: what a retained
            # sample reports must still be its own thread's operations in its own window
            d.pop("s", None)
            d["n"] = T
            d["caonly"] = rng.choice([1, 2, 3])
            d["camask"] = rng.choice([0, rng.randrange(1, (1 << T) - 1)])
            d["cbase"] = rng.choice([3, 10])
            for k in ("skew", "fpmask", "fpus"):
                d.pop(k, None)
            d["fpint"] = 0
        out.append(line(d))
    return out


def gen_c08_panic(tier, seed):
    """(thread, phase, round) panic matrix on T in {2,3}; each line is run in its own process."""
    rng = random.Random(seed * 1013 + 9)
    out = []
    idx = 0
    combos = []
    for T in (2, 3):
        for thread in list(range(T)) + [255]:
            for phase in (0, 1, 2, 3, 4):
                for rnd in (0, 1):
                    combos.append((T, thread, phase, rnd))
    rng.shuffle(combos)
    take = combos[:64] if tier == "quick" else combos * 3
    for (T, thread, phase, rnd) in take:
        entry = rng.choice([2, 4])
        s = rng.choice([1, 2])
        # every loop path: zero-sized fast path, deferred slots (output needs drop), inputs only (output needs no drop)
        ishape = rng.choice(["z", "zd", "s", "sd", "u"])
        oshape = rng.choice(["z", "zd", "s", "sd"])
        if phase == 3 and oshape in ("z", "s"):
            oshape = rng.choice(["zd", "sd"])        # a panic while dropping an output needs an output with a destructor
        if phase == 4 and ishape in ("z", "s", "u"):
            ishape = rng.choice(["zd", "sd"])
        d = {"id": idx, "entry": entry, "T": T, "s": s, "n": T * 3, "cbase": 10, "seed": rng.randrange(1 << 20), "fplog": 0,
             "ishape": ishape, "oshape": oshape, "ic": "0"}
        index = rnd * s + rng.randrange(s)
        d["panic"] = "%d,%d,%d" % (phase, thread, index)
        out.append(line(d))
        idx += 1
    # a call panics on one thread while a peer's call is slow: whatever the unwinding thread does (guards, destructors), it must
    # not start dropping values while the peer is still between its timestamps. Every entry point x shape pair, so every loop path.
    shapes = [(e, i, o) for e in (2, 4) for i in ("z", "zd", "s", "sd", "u") for o in ("z", "zd", "s", "sd")]
    rng.shuffle(shapes)
    for rep in range(1 if tier == "quick" else 6):
        for (entry, ishape, oshape) in shapes:
            T = rng.choice([2, 3])
            thread = rng.randrange(T)
            peer = rng.choice([k for k in range(T) if k != thread])
            s = rng.choice([1, 2, 3])
            rnd = rng.choice([0, 1])
            d = {"id": idx, "entry": entry, "T": T, "s": s, "n": T * 3, "cbase": 10, "seed": rng.randrange(1 << 20), "fplog": 0,
                 "ishape": ishape, "oshape": oshape, "ic": "0", "panic": "2,%d,%d" % (thread, rnd * s + rng.randrange(s)),
                 "skew": "2,%d,%d" % (peer, rng.choice([300, 600]))}
            out.append(line(d))
            idx += 1
    # the same in test mode (one call per thread, nothing reported): a panic still reaches the caller, and nothing hangs
    tcombos = [(T, thread, phase) for T in (2, 3) for thread in list(range(T)) + [255] for phase in (0, 1, 2, 3, 4)]
    rng.shuffle(tcombos)
    for (T, thread, phase) in (tcombos[:16] if tier == "quick" else tcombos * 2):
        ishape = rng.choice(["z", "zd", "s", "sd", "u"])
        oshape = rng.choice(["z", "zd", "s", "sd"])
        if phase == 3 and oshape in ("z", "s"):
            oshape = rng.choice(["zd", "sd"])
        if phase == 4 and ishape in ("z", "s", "u"):
            ishape = rng.choice(["zd", "sd"])
        d = {"id": idx, "entry": rng.choice([2, 4]), "T": T, "s": rng.choice([1, 2]), "n": T * 3, "cbase": 10, "seed": rng.randrange(1 << 20), "fplog": 0,
             "ishape": ishape, "oshape": oshape, "ic": "0", "test": 1, "panic": "%d,%d,0" % (phase, thread), "_novos": True}
        out.append(line(d))
        idx += 1
    return out


def gen_c19(tier, seed):
    rng = random.Random(seed * 503 + 19)
    out = []
    N = 600 if tier == "quick" else 15000
    for idx in range(N):
        entry = rng.randrange(6)
        T = rng.choice([1, 1, 2, 4])
        d = {"id": idx, "entry": entry, "T": T, "seed": rng.randrange(1 << 30), "fplog": 0}
        i, o = shapes_for(entry, rng)
        if i:
            d["ishape"] = i
        d["oshape"] = o
        q = rng.choice([1, 1, 2, 5, 10, 100])
        d["q"] = q
        d["delta"] = rng.choice([1] if q == 1 else [max(1, q // 10), max(1, q // 3), q])
        d["freq"] = rng.choice([10 ** 12, 10 ** 9, 10 ** 6, 2_400_000_000])
        if idx % 4 == 3:
            d["freq"] = 10 ** 9      # these run on the scripted OS clock (1 tick = 1 ns): budgets below are computed for that rate
        # per-iteration cost from far below to far above the precision
        ratio = rng.choice([0.02, 0.05, 0.3, 1, 3, 30, 99, 100, 101, 102, 300, 1000])
        d["cbase"] = max(1, int(q * ratio)) if ratio >= 0.02 else 1
        shape = rng.randrange(4)
        if shape == 1:
            d["cgrow"] = rng.choice([1, max(1, q // 4)])
        elif shape == 2:
            d["cnoise"] = rng.choice([1, q, 10 * q])
        elif shape == 3:
            d["cthr"] = rng.choice([1, q * 7])
        d["n"] = rng.choice([-1, 1, 2, 3, 5, 8]) if d["cbase"] * 20 >= q else rng.choice([1, 2, 3])
        if d["n"] == -1:
            d.pop("n")
            if d["cbase"] * 3 < q:
                d["n"] = 2
        if rng.random() < 0.35:
            # max_time cutting tuning (or collection) short
            tick_ns = 10 ** 9 / d["freq"]
            d["max"] = max(0, int(rng.choice([1, 10, 100, 1000, 10 ** 4, 10 ** 5]) * q * tick_ns))
        if rng.random() < 0.2:
            d["min"] = int(rng.choice([1, 100, 1000]) * q * 10 ** 9 / d["freq"])
        if rng.random() < 0.3:
            d["skip"] = rng.choice([0, 1])
        if rng.random() < 0.4:
            add_allocs(d, rng, heavy=False)
        if entry >= 2 and rng.random() < 0.4:
            d["ic"] = sorted(rng.sample([0, 1, 2, 3], rng.randrange(1, 3)))
        d["gcost"] = rng.choice([0, 3, 10 * q])
        out.append(line(d))
    # costs that jump: a cliff exactly where a tuning round begins (a cache or capacity boundary), one huge call (a page fault), costs
    # that grow geometrically. The round that first outlasts 100x precision is the first recorded one however much longer than its
    # predecessor it is
    for k in range(40 if tier == "quick" else 1200):
        kind = k % 3
        r = rng.choice([1, 2, 3, 4, 5])
        K = 2 ** r - 1                       # calls made before tuning round r begins
        c0 = rng.choice([1, 1, 2, 3])
        if kind == 0:
            c1 = rng.choice([30, 40, 120, 1000]) * c0
            clist = [c0] * K + [c1] * (255 - K)
        elif kind == 1:
            clist = [c0] * 255
            clist[K + rng.randrange(0, 2 ** r)] = rng.choice([150, 500, 5000]) * (2 ** r)
        else:
            g = rng.choice([3, 4, 6])
            clist = [min(c0 * g ** i, 10 ** 9) for i in range(24)]
        d = {"id": N + 100 + k, "entry": rng.choice([0, 0, 1, 2, 4]), "T": rng.choice([1, 1, 2]), "n": rng.choice([2, 3, 5]), "q": 1, "delta": 1,
             "freq": rng.choice([10 ** 9, 10 ** 12]), "clist": ",".join(map(str, clist)), "seed": rng.randrange(1 << 20), "fplog": 0, "oshape": "z"}
        if d["entry"] >= 2:
            d["ishape"] = "s"
        out.append(line(d))
    # samples that last 2^32 (2^64) precision units and a little more in the very first tuning round: the multiple of the precision
    # is a wide number; its low bits alone say "still within 100x"
    for k, cost in enumerate([2 ** 32 + 2, 3 * 2 ** 32 + 7, 2 ** 32 - 1000, 2 ** 33 + 50, 2 ** 32] + ([2 ** 48 + 1, 5 * 10 ** 9, 2 ** 40] if tier == "thorough" else [])):
        d = {"id": N + k, "entry": rng.choice([0, 2]), "T": rng.choice([1, 1, 2]), "n": rng.choice([2, 3]), "q": 1, "delta": 1, "freq": rng.choice([10 ** 9, 10 ** 12]),
             "cbase": cost, "seed": rng.randrange(1 << 20), "fplog": 0, "oshape": "z", "_novos": k % 2 == 0}
        if d["entry"] == 2:
            d["ishape"] = "s"
        if cost == 2 ** 32:
            d["max"] = 2000 * 10 ** 9 if d["freq"] == 10 ** 9 else 10 ** 9     # an exact multiple would double for ever
        out.append(line(d))
    # calls far cheaper than the precision, returning (or taking) values that have a size: the doubling must go on past 2^16 and
    # 2^17 iterations, whatever the sample would have to keep until its end
    base = N + 8
    for k, (entry, ish, osh, q) in enumerate([(0, None, "s", 700), (2, "s", "s", 400)] + ([(1, None, "s", 1500), (0, None, "sd", 700), (4, "s", "z", 700), (3, "s", "c", 400)] if tier == "thorough" else [])):
        d = {"id": base + k, "entry": entry, "T": 1, "n": 2, "q": q, "delta": 1, "freq": 10 ** 9, "cbase": 1, "seed": rng.randrange(1 << 20), "fplog": 0,
             "oshape": osh, "_novos": k % 2 == 0}
        if ish:
            d["ishape"] = ish
        out.append(line(d))
    return out


def gen_c11_e2e(tier, seed):
    """C11 end to end: the frequency reaches the conversion through Timer::get_tsc, the readings through a real sample loop."""
    rng = random.Random(seed * 1103 + 11)
    out = []
    freqs = [1, 2, 7, 499, 500, 501, 999, 1000, 1499, 32768, 10 ** 6 + 1, 999_999_999, 10 ** 9, 2_999_999_999, 10 ** 12 - 1, 10 ** 12,
             2 ** 32 + 1, 2 ** 63, 2 ** 64 - 1]
    N = 60 if tier == "quick" else 2000
    for idx in range(N):
        f = freqs[idx % len(freqs)] if idx < 2 * len(freqs) else rng.choice(freqs + [rng.randrange(1, 10 ** rng.randrange(1, 19))])
        d = {"id": idx, "entry": rng.choice([0, 0, 1, 2]), "T": rng.choice([1, 1, 2]), "s": rng.choice([1, 3]), "n": rng.choice([2, 3, 5]),
             "freq": f, "delta": 1, "q": 1, "cbase": rng.choice([1, 1000, 10 ** 5, 10 ** 6, 2 ** 33, 2 ** 40]), "cstep": rng.choice([0, 1, 977]),
             "cmod": rng.choice([1, 3, 7]), "seed": rng.randrange(1 << 20), "fplog": 0, "oshape": "z", "_novos": True}
        if d["entry"] == 2:
            d["ishape"] = "s"
        if idx % 5 in (1, 3) and rng.random() < 0.7:
            # where the counter stands must not matter: runs that begin just below 2^63 (so that readings fall on both sides of the
            # top bit, also inside one sample), at 2^63, at 2^62 and high in the upper half
            span = max(2, d["n"] * d["s"] * d["cbase"])
            d["base"] = rng.choice([2 ** 63 - rng.randrange(1, span), 2 ** 63 - rng.randrange(1, span), 2 ** 63 - max(1, d["cbase"] // 2), 2 ** 63,
                                    2 ** 62 - 5, 2 ** 63 + 2 ** 62, 2 ** 64 - 2 ** 46])
        if idx % 5 == 2 and f >= 1000:
            # a clock too coarse to see the sample (explicit sample size: nothing is clamped): readings b <= a give exactly 0
            d.update({"q": rng.choice([100, 1000, 10 ** 4]), "cbase": rng.choice([0, 1, 3]), "cstep": 0, "n": rng.choice([5, 9, 16]), "s": rng.choice([1, 2])})
        if idx % 5 in (0, 4) and idx % 2 == 0:
            # a counter that steps backwards between the two reads of a sample (a thread moved to a core whose counter lags): b < a is 0
            d["regress"] = "%d,%d" % (rng.choice([1, 2, 3]), rng.choice([1, 40, 5000, 10 ** 9]))
            d["n"] = rng.choice([4, 8])
        if idx % 5 == 4:
            # the OS-timer arm on the scripted source (1 tick = 1 ns), with spans up to and beyond 2^64 ps
            d.update({"tsc": 0, "vos": 1, "T": 1, "s": 1, "cbase": rng.choice([1000, 2 ** 40, 2 ** 54, 2 ** 55, 2 ** 60]), "cstep": rng.choice([0, 1]), "n": rng.choice([2, 3])})
        out.append(line(d))
    return out
