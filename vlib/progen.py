"""Generator of real benchmark crates (attribute macros + linker registration) and their expected registry."""
import random

from . import treegen as TG

PRELUDE = r'''#![allow(dead_code, unused_variables, non_snake_case, non_upper_case_globals, unused_imports, unused_attributes, clippy::all)]
use std::sync::Mutex;
use std::time::Duration;

static VLOG: Mutex<Vec<String>> = Mutex::new(Vec::new());

pub fn hexs(s: &str) -> String {
    if s.is_empty() { "-".into() } else { s.bytes().map(|b| format!("{b:02x}")).collect() }
}
pub fn vrun(id: u32, arg: &str, ty: &str, cv: &str) {
    VLOG.lock().unwrap().push(format!("run {id} {} {} {} 0:1", hexs(arg), hexs(ty), hexs(cv)));
}
pub fn vargs(id: u32) {
    VLOG.lock().unwrap().push(format!("args_eval {id}"));
}

#[derive(Debug, Clone, Copy, PartialEq)]
pub enum Color { Red, Green, Blue }
pub struct Alpha;
pub mod deep { pub struct Beta<T>(pub T); }
pub const SIZES_A: &[usize] = &[1, 2, 4, 8, 16];
pub const SIZES_20: &[usize] = &[20, 19, 18, 17, 16, 15, 14, 13, 12, 11, 10, 9, 8, 7, 6, 5, 4, 3, 2, 1];
pub const SIZES_1: &[usize] = &[3];
pub const THREADS_C: &[usize] = &[4, 1, 4, 0];
pub const U64S: &[u64] = &[5, 1, 3];
pub fn strings() -> Vec<String> { vec!["gamma".to_owned(), "alpha".to_owned(), "beta".to_owned()] }
pub static WORDS: [&str; 4] = ["alfa", "bravo", "charlie", "delta"];
pub const TEXT: &str = "abcde";
/// Borrowed strings that alias one buffer (same start address, different lengths; one shared tail).
pub fn prefixes() -> [&'static str; 4] { [&TEXT[..2], &TEXT[..1], &TEXT[..3], &TEXT[3..]] }

fn opt_u128(d: Option<Duration>) -> String { match d { Some(d) => d.as_nanos().to_string(), None => "-".into() } }
fn on(v: Option<u32>) -> String { match v { Some(v) => v.to_string(), None => "-".into() } }
fn ob(v: Option<bool>) -> String { match v { Some(true) => "1".into(), Some(false) => "0".into(), None => "-".into() } }

fn dump() {
    use divan::__private::{BENCH_ENTRIES, GROUP_ENTRIES, EntryMeta};
    fn meta(kind: &str, m: &EntryMeta, extra: String) {
        let o = match m.bench_options.as_deref() {
            None => "none".to_owned(),
            Some(o) => format!("sc={},ss={},th={},mt={},xt={},sk={},ig={},ctr={}", on(o.sample_count), on(o.sample_size),
                match o.threads.as_deref() { Some(t) => format!("[{}]", t.iter().map(|x| x.to_string()).collect::<Vec<_>>().join(";")), None => "-".into() },
                opt_u128(o.min_time), opt_u128(o.max_time), ob(o.skip_ext_time), ob(o.ignore), format!("{:?}", o.counters).replace(' ', "")),
        };
        println!("{kind} {} {} {} {} {} {} {} {}", hexs(m.display_name), hexs(m.raw_name), hexs(m.module_path), hexs(m.location.file), m.location.line, m.location.col, o, extra);
    }
    for e in BENCH_ENTRIES.iter() {
        let k = match e.bench { divan::__private::BenchEntryRunner::Plain(_) => "plain", divan::__private::BenchEntryRunner::Args(_) => "args" };
        meta("B", &e.meta, k.to_owned());
    }
    for g in GROUP_ENTRIES.iter() {
        let shape = match g.generic_benches { None => "group".to_owned(), Some(outer) => format!("generic:{}", outer.iter().map(|i| i.len().to_string()).collect::<Vec<_>>().join("x")) };
        meta("G", &g.meta, shape);
    }
    println!("DUMP-END");
}

fn main() {
    if std::env::var_os("VERIF_DUMP").is_some() { dump(); return; }
    divan::main();
    println!("\n=====VERIF-LOG=====");
    println!("status ok");
    for l in VLOG.lock().unwrap().iter() { println!("{l}"); }
    println!("=====VERIF-END=====");
}
'''

TYPES = [("i32", "i32"), ("String", "alloc::string::String"), ("Vec<u8>", "alloc::vec::Vec<u8>"), ("&'static str", "&str"), ("u64", "u64"),
         ("crate::Alpha", "{crate}::Alpha"), ("crate::deep::Beta<u8>", "{crate}::deep::Beta<u8>"), ("Option<crate::Alpha>", "core::option::Option<{crate}::Alpha>"),
         ("[u8; 4]", "[u8; 4]"), ("()", "()"),
         ("Vec<Vec<u8>>", "alloc::vec::Vec<alloc::vec::Vec<u8>>"), ("Option<Vec<u8>>", "core::option::Option<alloc::vec::Vec<u8>>"),
         ("Result<Vec<u8>, String>", "core::result::Result<alloc::vec::Vec<u8>, alloc::string::String>"),
         ("crate::deep::Beta<Option<crate::Alpha>>", "{crate}::deep::Beta<core::option::Option<{crate}::Alpha>>")]

TYPED_CONSTS = [("u8", "[1, 0]", ["1", "0"], "u8"), ("bool", "[true, false]", ["true", "false"], "bool"), ("u32", "[97, 98]", ["97", "98"], "i64"),
                ("char", "['a', 'b']", ["a", "b"], "char"), ("i8", "[-1]", ["-1"], "i64"), ("u8", "[255]", ["255"], "u8")]

IDENTS = ["alpha", "beta", "gamma", "delta", "eps", "zeta", "eta", "theta", "iota", "kappa", "lam", "mu", "nu", "xi", "omi", "pi", "rho", "sigma", "tau", "ups",
          "b1", "b2", "b10", "b02", "x9", "x10", "x100", "r#match", "r#type", "r#loop", "Upper", "mixedCase", "with_under", "n0", "n00", "zz9",
          "f1", "f2", "f3", "f4", "f5", "f6", "f7", "f8", "f9", "f10", "f11", "f12", "g1", "g2", "g3", "g4", "g5", "g6", "g7", "g8"]


class Item:
    pass


def rust_str(s):
    return '"' + s.replace("\\", "\\\\").replace('"', '\\"') + '"'


def gen_options(rng, level, for_plain_fn):
    """Returns (attr text parts, expected options dict in dump form, ignore_attr: bool)."""
    parts = []
    exp = {}
    ignore_attr = False
    if rng.random() < 0.35:
        v = rng.choice([0, 1, 3, 10])
        parts.append("sample_count = %d" % v)
        exp["sc"] = v
    if rng.random() < 0.35:
        v = rng.choice([1, 2, 5])
        parts.append("sample_size = %d" % v)
        exp["ss"] = v
    if rng.random() < 0.35:
        form = rng.randrange(8)
        sc = rng.choice([1, 2, 3, 4, 5, 6, 7, 8, 12])
        text, val = [("threads", [0]), ("threads = true", [0]), ("threads = false", [1]), ("threads = %d" % sc, [sc]), ("threads = 0", [0]),
                     ("threads = [1, 2, 2]", [1, 2, 2]), ("threads = 0..=3", [0, 1, 2, 3]), ("threads = crate::THREADS_C", [0, 1, 4])][form]
        parts.append(text)
        exp["th"] = val
    if rng.random() < 0.25:
        text, ns = rng.choice([("min_time = 2", 2 * 10 ** 9), ("min_time = 1.5", 15 * 10 ** 8), ("min_time = Duration::from_millis(250)", 25 * 10 ** 7), ("min_time = 0", 0)])
        parts.append(text)
        exp["mt"] = ns
    if rng.random() < 0.25:
        text, ns = rng.choice([("max_time = 8", 8 * 10 ** 9), ("max_time = 0.25", 25 * 10 ** 7), ("max_time = Duration::from_secs(1)", 10 ** 9), ("max_time = Duration::ZERO", 0)])
        parts.append(text)
        exp["xt"] = ns
    if rng.random() < 0.2:
        text, v = rng.choice([("skip_ext_time", True), ("skip_ext_time = true", True), ("skip_ext_time = false", False)])
        parts.append(text)
        exp["sk"] = v
    r = rng.random()
    if r < 0.12:
        parts.append("ignore")
        exp["ig"] = True
    elif r < 0.2:
        parts.append("ignore = false")
        exp["ig"] = False
    elif r < 0.28:
        ignore_attr = True
        exp["ig"] = True
    if rng.random() < 0.3:
        form = rng.randrange(5)
        if form == 0:
            parts.append("bytes_count = 5u32")
            exp["c0"] = 5
        elif form == 1:
            parts.append("items_count = 7usize")
            parts.append("chars_count = 2u8")
            exp["c3"] = 7
            exp["c1"] = 2
        elif form == 2:
            parts.append("counters = [divan::counter::BytesCount::new(3u64), divan::counter::CyclesCount::new(4u8)]")
            exp["c0"] = 3
            exp["c2"] = 4
        elif form == 3:
            parts.append("counter = divan::counter::ItemsCount::new(9u32)")
            exp["c3"] = 9
        else:
            parts.append("cycles_count = 1000u64")
            exp["c2"] = 1000
    rng.shuffle(parts)
    return parts, exp, ignore_attr


class Program:
    def __init__(self, crate, index):
        self.crate = crate        # binary / crate name, first path component
        self.index = index
        self.lines = []
        self.spec = TG.Spec()
        self.spec.crate = crate
        self.spec.clock = (10 ** 9, 1, 1, 1000)
        self.dump_expect = []     # (kind, display, raw, module_path, line, col, opts dict|None, extra)
        self.file = "src/bin/%s.rs" % crate

    def emit(self, text):
        self.lines.append(text)
        return len(self.lines)      # 1-based line number of the emitted line (after prelude offset applied later)


def opts_to_spec(exp):
    """dump-form options -> treegen option dict (nanoseconds, ints)."""
    if exp is None:
        return None
    o = {}
    for k, v in exp.items():
        if k in ("sk", "ig"):
            o[k] = 1 if v else 0
        else:
            o[k] = v
    return o


def gen_program(rng, crate, index, size):
    P = Program(crate, index)
    prelude_lines = PRELUDE.count("\n")
    body = []          # list of text lines after the prelude

    def line_no():
        return prelude_lines + len(body) + 1

    next_id = [1]
    used_names = {}

    def pick_ident(scope):
        used = used_names.setdefault(scope, set())
        for _ in range(200):
            n = rng.choice(IDENTS)
            pretty = n.replace("r#", "")
            if n not in used and pretty.upper() not in {u.replace("r#", "").upper() for u in used}:
                used.add(n)
                return n
        raise RuntimeError("idents exhausted")

    def add_bench(modpath, indent, nested_ok=True, force_kind=None, force_form=None, force_ident=None, force_empty=False, force_nested=False):
        bid = next_id[0]
        next_id[0] += 1
        ident = force_ident or pick_ident(tuple(modpath))
        pretty = ident.replace("r#", "")
        kind = force_kind or rng.choice(["plain", "plain", "bencher", "args", "args", "args", "types", "consts", "consts_ext", "both", "types_args", "consts_args"])
        opts_parts, exp_opts, ignore_attr = gen_options(rng, "bench", kind == "plain")
        display = pretty
        shown = used_names.setdefault(("display",) + tuple(modpath), set())
        if force_ident:
            pass                            # a function that shares its name with a sibling module keeps that name
        elif rng.random() < 0.3:
            display = rng.choice(["custom name", "my-bench", "x10", "x9", "Ünï", "a.b", "name with spaces"]) + ("" if rng.random() < 0.5 else str(bid))
            if display in shown:
                display += "_%d" % bid      # sibling display names stay unique (paths must identify cases)
            opts_parts.insert(rng.randrange(len(opts_parts) + 1), "name = %s" % rust_str(display))
        elif display in shown:
            display = "%s_%d" % (pretty, bid)
            opts_parts.insert(rng.randrange(len(opts_parts) + 1), "name = %s" % rust_str(display))
        shown.add(display)
        pad = "    " * indent
        b = TG.Bench(bid, list(modpath), ident, display, P.file, 0, len(pad) + 1, None, {"cost": 10, "mode": 0}, "plain")
        extra_attr = ""
        sig_generics, fn_args, body_stmt = "", "", ""
        dump_extra = "plain"
        ext = 'extern "C" ' if (kind in ("plain", "bencher") and rng.random() < 0.15) else ""
        if kind == "plain":
            body_stmt = 'crate::vrun(%d, "", "", "");' % bid
        elif kind == "bencher":
            fn_args = "bencher: divan::Bencher"
            body_stmt = 'crate::vrun(%d, "", "", ""); bencher.bench(|| ());' % bid
        elif kind == "args":
            form = rng.randrange(10) if force_form is None else force_form
            n = rng.choice([1, 2, 3, 5, 9, 30]) if form in (0, 2) else 3
            with_bencher = rng.random() < 0.5
            if form == 0:
                vals = [rng.randrange(-99, 100) for _ in range(n)]
                expr, ty, labels = "[%s]" % ", ".join(map(str, vals)), "i32", [str(v) for v in vals]
            elif form == 1:
                expr, ty, labels = "crate::U64S", "u64", ["5", "1", "3"]
            elif form == 2:
                lo = rng.randrange(0, 3)
                expr, ty, labels = "%d..%d" % (lo, lo + n), "usize", [str(v) for v in range(lo, lo + n)]
            elif form == 3:
                vals = rng.sample(["b", "a", "c10", "c9", "zeta", "é"], 3)
                expr, ty, labels = "[%s]" % ", ".join(rust_str(v) for v in vals), "&str", vals
            elif form == 4:
                expr, ty, labels = "{ crate::vargs(%d); crate::strings() }" % bid, "&str", ["gamma", "alpha", "beta"]
            elif form == 5:
                expr, ty, labels = "[crate::Color::Green, crate::Color::Red, crate::Color::Blue]", "crate::Color", ["Green", "Red", "Blue"]
            elif form == 6:
                expr, ty, labels = "[]", "u8", []
            elif form == 8:
                expr, ty, labels = "crate::prefixes()", "&str", ["ab", "a", "abc", "de"]
            elif form == 9:
                # references into one table, in an order of the caller's choosing (first and last in place, middle permuted)
                expr, ty, labels = "[&crate::WORDS[0], &crate::WORDS[2], &crate::WORDS[1], &crate::WORDS[3]]", "&'static &'static str", ["alfa", "charlie", "bravo", "delta"]
            else:
                vals = [1.5, 0.25, 10.0]
                expr, ty, labels = "[1.5, 0.25, 10.0]", "f64", ["1.5", "0.25", "10"]
            opts_parts.insert(rng.randrange(len(opts_parts) + 1), "args = %s" % expr)
            show = "format!(\"{:?}\", x)" if ty == "crate::Color" else "x.to_string()"
            fn_args = ("bencher: divan::Bencher, x: %s" % ty) if with_bencher else ("x: %s" % ty)
            body_stmt = 'crate::vrun(%d, &%s, "", "");' % (bid, show) + (" bencher.bench(|| ());" if with_bencher else "")
            b.kind, b.argtype, b.args = "args", "raw", labels
            dump_extra = "args"
            if form == 4:
                b.shared_args_eval = True
        elif kind in ("types", "consts", "consts_ext", "consts_typed", "both", "types_args", "consts_args"):
            b.kind = "generic"
            tys = rng.sample(range(len(TYPES)), rng.randrange(1, 4)) if kind in ("types", "both", "types_args") else []
            consts, const_expr = [], None
            if kind in ("consts", "consts_args"):
                consts = rng.sample([1, 2, 4, 8, 16, 32, 100, 7], rng.randrange(2 if kind == "consts_args" else 1, 5))
                # how a literal is spelled is the author's business (radix, padding, separators, suffix): the row is named by the value
                def spell(v):
                    return rng.choice([str(v)] * 5 + [hex(v), "0o%o" % v, "0b%s" % bin(v)[2:], "00%d" % v, "%d_usize" % v, "%dusize" % v, "0x%X" % v,
                                                    "1_00" if v == 100 else str(v)])
                const_expr = "[%s]" % ", ".join(spell(c) for c in consts)
            elif kind == "consts_ext":
                ext_consts = [("crate::SIZES_A", [1, 2, 4, 8, 16]), ("crate::SIZES_20", list(range(20, 0, -1))), ("crate::SIZES_1", [3])]
                const_expr, consts = rng.choice(ext_consts) if force_form is None else ext_consts[force_form]
            elif kind == "consts_typed":
                # const parameters of different types whose value lists are byte for byte the same (the compiler may place such
                # lists at one address): every instantiation is still named by its own value
                const_ty, const_expr, consts, ckind = TYPED_CONSTS[force_form if force_form is not None else rng.randrange(len(TYPED_CONSTS))]
            elif kind == "both":
                consts = rng.sample([1, 2, 3, 10, 20], rng.randrange(1, 4))
                const_expr = "[%s]" % ", ".join(rng.choice([str(c)] * 4 + [hex(c), "0%d" % c, "0b%s" % bin(c)[2:]]) for c in consts)
            empty = (rng.random() < 0.07 or force_empty) and kind in ("types", "consts")
            if empty:
                tys, consts = [], []
                const_expr = "[]" if kind == "consts" else None
            if kind in ("types", "both", "types_args"):
                opts_parts.insert(rng.randrange(len(opts_parts) + 1), "types = [%s]" % ", ".join(TYPES[t][0] for t in tys))
            if const_expr is not None:
                opts_parts.insert(rng.randrange(len(opts_parts) + 1), "consts = %s" % const_expr)
            gp = []
            if kind in ("types", "both", "types_args"):
                gp.append("T: 'static")
            if const_expr is not None:
                gp.append("const N: %s" % (const_ty if kind == "consts_typed" else "usize"))
            if kind == "both" and rng.random() < 0.5:
                gp.reverse()
            sig_generics = "<%s>" % ", ".join(gp)
            tyexpr = "std::any::type_name::<T>()" if kind in ("types", "both", "types_args") else '""'
            cvexpr = "&N.to_string()" if const_expr is not None else '""'
            if kind in ("types_args", "consts_args"):
                opts_parts.insert(rng.randrange(len(opts_parts) + 1), "args = { crate::vargs(%d); [3, 1, 2] }" % bid)
                fn_args = "x: u32"
                body_stmt = "crate::vrun(%d, &x.to_string(), %s, %s);" % (bid, tyexpr, cvexpr)
                b.args = ["3", "1", "2"]
                b.argtype = "raw"
            else:
                body_stmt = 'crate::vrun(%d, "", %s, %s);' % (bid, tyexpr, cvexpr)
            b.types = [TYPES[t][1].replace("{crate}", crate) for t in tys]
            b.constkind = ckind if kind == "consts_typed" else "i64"
            b.consts = [str(c) for c in consts]
            if kind in ("types", "types_args"):
                shape = "generic:%d" % len(tys) if tys else "generic:"
            elif kind in ("consts", "consts_ext", "consts_args", "consts_typed"):
                shape = "generic:%d" % len(consts) if consts else "generic:"
                if empty:
                    shape = "generic:"
            else:
                shape = "generic:" + "x".join(str(len(consts)) for _ in tys)
            if empty:
                shape = "EMPTY"
            dump_extra = shape
        b.opts = opts_to_spec(exp_opts) if (exp_opts or ignore_attr) else None
        if b.opts is None and any(p for p in opts_parts if not p.startswith(("name", "args", "types", "consts"))):
            b.opts = {}
        attr = "#[divan::bench(%s)]" % ", ".join(opts_parts) if opts_parts else "#[divan::bench]"
        nested = force_nested or (nested_ok and rng.random() < 0.12 and kind in ("plain", "bencher"))
        if nested:
            body.append("%sfn host_%d() {" % (pad, bid))
            pad2 = pad + "    "
        else:
            pad2 = pad
        ignore_text = rng.choice(["#[ignore]", "#[ignore]", '#[ignore = "needs network"]', '#[ignore = ""]'])   # with or without a reason
        if ignore_attr and rng.random() < 0.5:
            body.append("%s%s" % (pad2, ignore_text))
            ignore_done = True
        else:
            ignore_done = False
        b.line = line_no()
        b.col = len(pad2) + 1
        body.append("%s%s" % (pad2, attr))
        if ignore_attr and not ignore_done:
            body.append("%s%s" % (pad2, ignore_text))
        body.append("%s%sfn %s%s(%s) { %s }" % (pad2, ext, ident, sig_generics, fn_args, body_stmt))
        if nested:
            body.append("%s}" % pad)
        has_opts = bool(exp_opts) or ignore_attr
        P.dump_expect.append(("G" if b.kind == "generic" else "B", display, ident, "::".join(modpath), b.line, b.col, exp_opts if has_opts else None, dump_extra))
        if dump_extra != "EMPTY":
            P.spec.items.append(b)
        else:
            P.dump_expect.pop()       # `types = []` / `consts = []` register nothing at all
        return b

    def add_module(modpath, indent, depth, force_ident=None, min_items=1, force_group=None):
        name = force_ident or pick_ident(tuple(modpath))
        pretty = name.replace("r#", "")
        pad = "    " * indent
        grouped = rng.random() < 0.6 or force_group is not None
        if grouped:
            parts, exp_opts, ignore_attr = gen_options(rng, "group", False) if force_group is None else force_group
            display = pretty
            shown = used_names.setdefault(("display",) + tuple(modpath), set())
            if (rng.random() < 0.4 or display in shown) and not force_ident:
                display = rng.choice(["Group", "grp-x", "G 1", "ω"]) + str(rng.randrange(100))
                while display in shown:
                    display += "x"
                parts.insert(0, "name = %s" % rust_str(display))
            shown.add(display)
            attr = "#[divan::bench_group(%s)]" % ", ".join(parts) if parts else "#[divan::bench_group]"
            ln = line_no()
            body.append("%s%s" % (pad, attr))
            if ignore_attr:
                body.append("%s%s" % (pad, rng.choice(["#[ignore]", '#[ignore = "slow"]'])))
            g = TG.Group(list(modpath), name, display, P.file, ln, len(pad) + 1, opts_to_spec(exp_opts) if (exp_opts or ignore_attr) else None)
            P.spec.items.append(g)
            P.dump_expect.append(("G", display, name, "::".join(modpath), ln, len(pad) + 1, exp_opts if (exp_opts or ignore_attr) else None, "group"))
        if not grouped:
            used_names.setdefault(("display",) + tuple(modpath), set()).add(pretty)
        body.append("%smod %s {" % (pad, name))
        body.append("%s    use std::time::Duration;" % pad)
        sub = modpath + [name]
        n_items = max(min_items, rng.randrange(1, 4))
        for _ in range(n_items):
            if depth < 3 and rng.random() < 0.3:
                add_module(sub, indent + 1, depth + 1)
            else:
                add_bench(sub, indent + 1)
        body.append("%s}" % pad)

    for _ in range(size):
        if rng.random() < 0.45:
            add_module([crate], 0, 1)
        else:
            add_bench([crate], 0)
    if index == 0:
        # the first program of every crate also carries one item of every attribute form, so that no form depends on luck
        body.append("mod all_forms {")
        body.append("    use std::time::Duration;")
        sub = [crate, "all_forms"]
        for form in range(10):
            add_bench(sub, 1, nested_ok=False, force_kind="args", force_form=form)
        for form in range(3):
            add_bench(sub, 1, nested_ok=False, force_kind="consts_ext", force_form=form)
        for k in ("plain", "bencher", "types", "consts", "both", "both", "types_args", "consts_args"):
            add_bench(sub, 1, nested_ok=(k in ("plain", "bencher")), force_kind=k)
        body.append("}")
        # empty generic lists register nothing at all - also when a sibling module bears the function's name
        body.append("mod empties {")
        body.append("    use std::time::Duration;")
        sub = [crate, "empties"]
        add_bench(sub, 1, nested_ok=False, force_kind="types", force_ident="decode", force_empty=True)
        add_module(sub, 1, 3, force_ident="decode", min_items=2)
        add_bench(sub, 1, nested_ok=False, force_kind="consts", force_empty=True)
        body.append("}")
        body.append("mod typed_consts {")
        body.append("    use std::time::Duration;")
        sub = [crate, "typed_consts"]
        for form in rng.sample(range(len(TYPED_CONSTS)), len(TYPED_CONSTS)):
            add_bench(sub, 1, nested_ok=False, force_kind="consts_typed", force_form=form)
        body.append("}")
        # groups on modules named by raw identifiers: the group's own entry and the module path of its benchmarks must meet
        body.append("mod raw_groups {")
        body.append("    use std::time::Duration;")
        sub = [crate, "raw_groups"]
        add_module(sub, 1, 3, force_ident="r#try", min_items=2, force_group=(["ignore"], {"ig": True}, False))
        add_module(sub, 1, 3, force_ident="r#match", min_items=2, force_group=(["threads = [1, 2]", "items_count = 7u8"], {"th": [1, 2], "c3": 7}, False))
        add_module(sub, 1, 3, force_ident="r#loop", min_items=1, force_group=([], {"ig": True}, True))
        body.append("}")
        # a function and a sibling module of the same name (separate namespaces), declared in both orders
        body.append("mod twins {")
        body.append("    use std::time::Duration;")
        sub = [crate, "twins"]
        add_bench(sub, 1, nested_ok=False, force_kind=rng.choice(["plain", "bencher", "args"]), force_ident="parse")
        add_module(sub, 1, 3, force_ident="parse", min_items=2)
        add_module(sub, 1, 3, force_ident="scan", min_items=2)
        add_bench(sub, 1, nested_ok=False, force_kind=rng.choice(["plain", "bencher"]), force_ident="scan")
        body.append("}")
        # benchmarks of one name nested in different function bodies of one module: module_path!() is the module's, so they share path
        # and name, and are two registered items all the same
        body.append("mod nested_twins {")
        body.append("    use std::time::Duration;")
        sub = [crate, "nested_twins"]
        add_bench(sub, 1, force_kind="plain", force_ident="probe", force_nested=True)
        add_bench(sub, 1, force_kind=rng.choice(["plain", "bencher"]), force_ident="probe", force_nested=True)
        add_bench(sub, 1, nested_ok=False, force_kind="plain", force_ident="other")
        body.append("}")
    P.source = PRELUDE + "\n".join(body) + "\n"
    for i, it in enumerate(P.spec.items):
        if isinstance(it, TG.Bench):
            it.order = i
    P.spec.groups = [i for i in P.spec.items if isinstance(i, TG.Group)]
    P.spec.benches = [i for i in P.spec.items if isinstance(i, TG.Bench)]
    return P


def permuted_source(P, rng):
    """Same program with its top-level items in a different order (line numbers change; everything else must not)."""
    return None


def dump_options_text(exp):
    """Canonical text the generated program's dump prints for a BenchOptions value."""
    if exp is None:
        return "none"
    g = lambda k: str(exp[k]) if k in exp else "-"
    b = lambda k: ("1" if exp[k] else "0") if k in exp else "-"
    th = "[%s]" % ";".join(map(str, exp["th"])) if "th" in exp else "-"
    ctr = "CounterSet{counts:[%s]}" % ",".join(("Some(%d)" % exp["c%d" % k]) if ("c%d" % k) in exp else "None" for k in range(4))
    return "sc=%s,ss=%s,th=%s,mt=%s,xt=%s,sk=%s,ig=%s,ctr=%s" % (g("sc"), g("ss"), th, g("mt"), g("xt"), b("sk"), b("ig"), ctr)
