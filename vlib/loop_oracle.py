"""Offline oracles over sample-loop event logs: C01 C02 C03 C04 C05 C08 C19.

Written from the property statements; the only facts taken from the driver are
the event meanings (see harness/src/tracked.rs) and the configuration that was
requested.
"""
import math
from collections import defaultdict, Counter

from . import evlog as E

PICOS = 10 ** 12
VALUE_ENTRIES = (2, 3)
REF_ENTRIES = (4, 5)
LOCAL_ENTRIES = (1, 3, 5)
STRUCT_KINDS = (E.GEN, E.COUNT, E.CALL_BEGIN, E.CALL_END, E.DROP_OUT, E.DROP_IN)
IN_HAS_DROP = {"z": False, "zd": True, "s": False, "sd": True, "u": False}
IN_HAS_ID = {"z": False, "zd": False, "s": True, "sd": True, "u": True}
OUT_HAS_ID = {"z": False, "zd": False, "s": True, "sd": True, "c": True}


class V:
    """A violation (or a note) found by an oracle."""

    def __init__(self, prop, code, msg, witness=None):
        self.prop, self.code, self.msg, self.witness = prop, code, msg, witness or []

    def sig(self):
        return "%s:%s" % (self.prop, self.code)

    def to_json(self):
        return {"property": self.prop, "code": self.code, "msg": self.msg,
                "witness": [w.brief() if hasattr(w, "brief") else w for w in self.witness[:40]]}


class Window:
    __slots__ = ("tid", "k", "s", "e", "inner", "calls", "kind", "ordinal")

    def __init__(self, tid, k, s, e):
        self.tid, self.k, self.s, self.e = tid, k, s, e
        self.inner = []
        self.calls = 0
        self.kind = None
        self.ordinal = None

    def ticks(self):
        return self.e.a - self.s.a


class ThreadView:
    def __init__(self, tid):
        self.tid = tid
        self.k = None
        self.events = []
        self.windows = []
        self.lone_starts = []
        self.stray_ends = []
        self.sample_windows = []
        self.unclosed_start = None


class Cfg:
    def __init__(self, run):
        c = run.cfg
        g = lambda k, d: int(c[k]) if k in c else d
        self.entry = g("entry", 0)
        self.ishape = c.get("ishape", "z") if self.entry >= 2 else None
        self.oshape = c.get("oshape", "z")
        self.s = g("s", -1)
        self.n = g("n", -1)
        self.T = g("T", 1)
        self.test = g("test", 0) != 0
        self.min_ns = int(c["min"]) if "min" in c else None
        self.max_ns = int(c["max"]) if "max" in c else None
        self.skip = g("skip", -1)
        self.freq = g("freq", PICOS)
        self.delta = g("delta", 1)
        self.q = g("q", 1)
        self.countas = [int(x) for x in c.get("countas", "").split(",") if x] if self.ishape == "u" else []
        # count_inputs_as is applied after the closures and replaces the closure of the same kind
        self.ic = [int(x) for x in c.get("ic", "").split(",") if x and int(x) not in self.countas] if self.entry >= 2 else []
        # Bencher::counter called after input_counter / count_inputs_as ("override an existing counter of the same type"):
        # the constant replaces the per-input counter of its kind
        self.bc_late = {}
        if g("bclate", 0):
            for t in c.get("bc", "").split(","):
                if t:
                    k, v = t.split(":")
                    self.bc_late[int(k)] = int(v)
            self.ic = [k for k in self.ic if k not in self.bc_late]
            self.countas = [k for k in self.countas if k not in self.bc_late]
        self.tsc = g("tsc", 1) != 0
        self.vos = (not self.tsc) and g("vos", 0) != 0
        if self.vos:
            # the OS-timer path on the scripted clock: readings are nanoseconds, observable like counter readings
            self.tsc = True
            self.freq = 10 ** 9
        self.local = self.entry in LOCAL_ENTRIES
        self.eff_T = 1 if self.local else self.T
        self.tuned = (self.s < 0) and not self.test
        self.eff_n = 100 if self.n < 0 else self.n
        self.has_panic = "panic" in c
        # Kinds that have an input counter closure logging `count` events.
        self.n_count_events = len(set(self.ic))

    def min_ps(self):
        return 0 if self.min_ns is None else self.min_ns * 1000

    def max_ps(self):
        return None if self.max_ns is None else min(self.max_ns, (2 ** 64 - 1) * 10 ** 9 + 999_999_999) * 1000

    def conv(self, ticks):
        return 0 if ticks < 0 else (ticks * PICOS) // self.freq


class Analysis:
    def __init__(self, run):
        self.run = run
        self.cfg = Cfg(run)
        self.threads = {}
        self.caller_tid = None
        self.struct_errors = []
        self.unpublished = 0
        self.rounds = []
        self._build()

    def _build(self):
        run = self.run
        for ev in run.events:
            if ev.kind == 0:
                # claimed but not (visibly) written: an event of a thread that is not synchronised with the
                # reader, i.e. one still tearing down after the run; counted, never interpreted
                self.unpublished += 1
                continue
            tv = self.threads.get(ev.tid)
            if tv is None:
                tv = self.threads[ev.tid] = ThreadView(ev.tid)
            if ev.k != 0xFFFE:
                tv.k = ev.k
            tv.events.append(ev)
            if ev.kind == E.RUN_BEGIN:
                self.caller_tid = ev.tid
        cfg = self.cfg
        for tv in self.threads.values():
            last_start = None
            cur = None
            for ev in tv.events:
                if ev.kind == E.TS_START:
                    if last_start is not None:
                        tv.lone_starts.append(last_start)
                    last_start = ev
                    cur = Window(tv.tid, tv.k, ev, None)
                elif ev.kind == E.TS_END:
                    if last_start is None:
                        # an end reading that closes no window (e.g. a re-read after the sample): kept as evidence, the oracles
                        # that compare recorded durations with windows decide what it means
                        tv.stray_ends.append(ev)
                        continue
                    cur.e = ev
                    tv.windows.append(cur)
                    last_start = None
                    cur = None
                elif cur is not None:
                    cur.inner.append(ev)
                    if ev.kind == E.CALL_BEGIN:
                        cur.calls += 1
            if last_start is not None:
                # A start read never followed by an end read on this thread.
                tv.unclosed_start = last_start
                tv.unclosed_inner = cur.inner if cur else []
            seen_sample = False
            for w in tv.windows:
                has_struct = any(ev.kind in STRUCT_KINDS for ev in w.inner)
                if w.calls > 0:
                    w.kind = "sample"
                    seen_sample = True
                elif (not has_struct) and (not seen_sample) and cfg.tuned and tv.tid == self.caller_tid:
                    w.kind = "calib"
                else:
                    w.kind = "empty"
            tv.sample_windows = [w for w in tv.windows if w.kind != "calib"]
            for i, w in enumerate(tv.sample_windows):
                w.ordinal = i
        # Rounds: the r-th non-calibration window of every thread that has windows.
        nrounds = max([len(tv.sample_windows) for tv in self.threads.values()] or [0])
        for r in range(nrounds):
            self.rounds.append({tv.tid: tv.sample_windows[r] for tv in self.threads.values() if len(tv.sample_windows) > r})

    def caller(self):
        return self.threads.get(self.caller_tid)

    def initial_start(self):
        """The lone start read on the caller (None if there is none)."""
        tv = self.caller()
        if tv is None:
            return None, 0
        lone = list(tv.lone_starts)
        if tv.unclosed_start is not None and not any(ev.kind in STRUCT_KINDS for ev in getattr(tv, "unclosed_inner", [])):
            lone.append(tv.unclosed_start)
        return (lone[0] if lone else None), len(lone)

    def worker_threads(self):
        return [tv for tv in self.threads.values() if tv.sample_windows]

    def total_calls(self):
        return sum(1 for ev in self.run.events if ev.kind == E.CALL_BEGIN)


# ---------------------------------------------------------------------------
# C01
# ---------------------------------------------------------------------------

def check_c01(an):
    out = []
    run, cfg = an.run, an.cfg
    evs = run.events
    panic_run = run.status != "ok" or any(ev.kind == E.PANIC_INJECTED for ev in evs)
    has_input = cfg.entry >= 2
    ishape, oshape = cfg.ishape, cfg.oshape
    in_id = has_input and IN_HAS_ID[ishape]
    in_drop = has_input and IN_HAS_DROP[ishape]
    out_id = OUT_HAS_ID[oshape]
    out_drop = oshape in ("zd", "sd", "c")
    values_form = cfg.entry in VALUE_ENTRIES
    refs_form = cfg.entry in REF_ENTRIES

    # Thread affinity of the _local forms: everything on the calling thread.
    if cfg.local:
        for ev in evs:
            if ev.kind in STRUCT_KINDS or ev.kind in (E.TS_START, E.TS_END):
                if ev.tid != an.caller_tid:
                    out.append(V("C01", "local_off_caller", "event of a _local form off the calling thread", [ev]))
                    break

    by_id = defaultdict(list)      # input id -> events mentioning it as input
    out_events = defaultdict(list)  # output id -> events
    out_from = {}
    for ev in evs:
        if ev.kind in (E.GEN, E.COUNT, E.CALL_BEGIN, E.CALL_END, E.DROP_IN):
            if in_id and ev.a != 0:
                by_id[ev.a].append(ev)
            if ev.kind == E.CALL_END and out_id and ev.b != 0:
                out_events[ev.b].append(ev)
                out_from[ev.b] = ev.a
        elif ev.kind == E.DROP_OUT:
            if out_id and ev.a != 0:
                out_events[ev.a].append(ev)

    # window lookup: for a call event find the window that contains it.
    win_of_seq = {}
    for tv in an.threads.values():
        for w in tv.windows:
            for ev in w.inner:
                if ev.kind in (E.CALL_BEGIN, E.CALL_END):
                    win_of_seq[ev.seq] = w

    n_count = cfg.n_count_events + 0
    for vid, lst in by_id.items():
        tids = {ev.tid for ev in lst}
        if len(tids) > 1:
            out.append(V("C01", "value_on_two_threads", "value %d seen on threads %s" % (vid, sorted(tids)), lst))
        gens = [ev for ev in lst if ev.kind == E.GEN]
        counts = [ev for ev in lst if ev.kind == E.COUNT]
        begins = [ev for ev in lst if ev.kind == E.CALL_BEGIN]
        ends = [ev for ev in lst if ev.kind == E.CALL_END]
        drops = [ev for ev in lst if ev.kind == E.DROP_IN]
        if len(drops) > 1:
            out.append(V("C01", "input_double_drop", "input %d dropped %d times" % (vid, len(drops)), lst))
        if len(begins) > 1:
            out.append(V("C01", "input_called_twice", "input %d passed to %d calls" % (vid, len(begins)), lst))
        if drops and begins and begins[-1].seq > drops[0].seq:
            out.append(V("C01", "use_after_drop", "input %d handed out after it was dropped" % vid, lst))
        if len(gens) != 1:
            out.append(V("C01", "gen_count", "input %d has %d gen events" % (vid, len(gens)), lst))
        if panic_run:
            continue
        if len(begins) != 1 or len(ends) != 1:
            out.append(V("C01", "input_not_called_once", "input %d: %d call begins, %d call ends" % (vid, len(begins), len(ends)), lst))
            continue
        kinds = Counter(ev.b for ev in counts)
        if len(counts) != n_count or any(v != 1 for v in kinds.values()):
            out.append(V("C01", "counter_visits", "input %d shown to counters %s, expected once to each of %d" % (vid, dict(kinds), n_count), lst))
        if gens and counts and not (gens[0].seq < min(c.seq for c in counts)):
            out.append(V("C01", "order_gen_count", "input %d counted before generated" % vid, lst))
        if counts and not (max(c.seq for c in counts) < begins[0].seq):
            out.append(V("C01", "order_count_call", "input %d counted after its call began" % vid, lst))
        if gens and not (gens[0].seq < begins[0].seq):
            out.append(V("C01", "order_gen_call", "input %d called before generated" % vid, lst))
        w = win_of_seq.get(begins[0].seq)
        if in_drop:
            if len(drops) != 1:
                out.append(V("C01", "input_drop_count", "input %d dropped %d times, expected once" % (vid, len(drops)), lst))
            elif refs_form:
                d = drops[0]
                if d.seq < ends[0].seq:
                    out.append(V("C01", "lent_input_dropped_in_call", "lent input %d dropped before its call returned" % vid, lst))
                if w is not None and w.e is not None and d.seq < w.e.seq:
                    out.append(V("C01", "input_drop_before_sample_end", "input %d dropped before the end timestamp of its sample" % vid, lst + [w.e]))
        else:
            if drops:
                out.append(V("C01", "phantom_input_drop", "input %d of a type without destructor logged a drop" % vid, lst))

    # Outputs.
    drop_of_out = {}
    for oid, lst in out_events.items():
        tids = {ev.tid for ev in lst}
        if len(tids) > 1:
            out.append(V("C01", "value_on_two_threads", "output %d seen on threads %s" % (oid, sorted(tids)), lst))
        made = [ev for ev in lst if ev.kind == E.CALL_END]
        drops = [ev for ev in lst if ev.kind == E.DROP_OUT]
        if len(drops) > 1:
            out.append(V("C01", "output_double_drop", "output %d dropped %d times" % (oid, len(drops)), lst))
        if drops and made and drops[0].seq < made[0].seq:
            out.append(V("C01", "output_dropped_before_made", "output %d dropped before its call returned" % oid, lst))
        if panic_run:
            continue
        if out_drop:
            if len(drops) != 1:
                out.append(V("C01", "output_drop_count", "output %d dropped %d times, expected once" % (oid, len(drops)), lst))
                continue
            drop_of_out[oid] = drops[0]
            w = win_of_seq.get(made[0].seq) if made else None
            if w is not None and w.e is not None and drops[0].seq < w.e.seq:
                out.append(V("C01", "output_drop_before_sample_end", "output %d dropped before the end timestamp of its sample" % oid, lst + [w.e]))
        elif drops:
            out.append(V("C01", "phantom_output_drop", "output %d of a type without destructor logged a drop" % oid, lst))

    # An output is dropped before the input it was computed from.
    if not panic_run and in_id and in_drop and out_drop and out_id and (refs_form or oshape == "c"):
        for oid, d in drop_of_out.items():
            src = out_from.get(oid)
            ind = [ev for ev in by_id.get(src, []) if ev.kind == E.DROP_IN]
            if ind and ind[0].seq < d.seq:
                out.append(V("C01", "input_dropped_before_output", "input %d dropped before output %d computed from it" % (src, oid), [ind[0], d]))

    # Zero-sized values: per-thread balances.
    per_thread = defaultdict(Counter)
    for ev in evs:
        if ev.kind in STRUCT_KINDS:
            zero = ev.a == 0
            per_thread[ev.tid][(ev.kind, zero)] += 1
    for tid, c in per_thread.items():
        calls = c[(E.CALL_BEGIN, True)] + c[(E.CALL_BEGIN, False)]
        ends = c[(E.CALL_END, True)] + c[(E.CALL_END, False)]
        if has_input and not in_id:
            gens = c[(E.GEN, True)]
            if panic_run:
                if calls > gens:
                    out.append(V("C01", "zst_more_calls_than_gens", "thread %d: %d calls for %d generated ZST inputs" % (tid, calls, gens)))
                if c[(E.DROP_IN, True)] > gens:
                    out.append(V("C01", "zst_input_double_drop", "thread %d: %d ZST input drops for %d generated" % (tid, c[(E.DROP_IN, True)], gens)))
            else:
                if gens != calls:
                    out.append(V("C01", "zst_gen_call_mismatch", "thread %d: %d ZST inputs generated, %d calls" % (tid, gens, calls)))
                if n_count and c[(E.COUNT, True)] != gens * n_count:
                    out.append(V("C01", "zst_counter_visits", "thread %d: %d counter visits for %d ZST inputs x %d counters" % (tid, c[(E.COUNT, True)], gens, n_count)))
                exp = calls if in_drop else 0
                if c[(E.DROP_IN, True)] != exp:
                    out.append(V("C01", "zst_input_drop_count", "thread %d: %d ZST input drops, expected %d" % (tid, c[(E.DROP_IN, True)], exp)))
        if not out_id:
            drops = c[(E.DROP_OUT, True)]
            if panic_run:
                if drops > ends:
                    out.append(V("C01", "zst_output_double_drop", "thread %d: %d ZST output drops for %d outputs" % (tid, drops, ends)))
            else:
                exp = ends if oshape == "zd" else 0
                if drops != exp:
                    out.append(V("C01", "zst_output_drop_count", "thread %d: %d ZST output drops, expected %d" % (tid, drops, exp)))

    if not panic_run:
        # Outputs without identity / lent ZST inputs must not be dropped inside a timed window, and the
        # number dropped after each window must equal the calls of that window.
        for tv in an.threads.values():
            for w in tv.windows:
                for ev in w.inner:
                    if ev.kind == E.DROP_OUT:
                        out.append(V("C01", "output_drop_before_sample_end", "output dropped inside the timed section", [w.s, ev, w.e]))
                        break
            sw = tv.sample_windows
            for i, w in enumerate(sw):
                if w.e is None:
                    continue
                hi = sw[i + 1].s.seq if i + 1 < len(sw) else None
                after = [ev for ev in tv.events if ev.seq > w.e.seq and (hi is None or ev.seq < hi)]
                if oshape == "zd":
                    nd = sum(1 for ev in after if ev.kind == E.DROP_OUT)
                    if nd != w.calls:
                        out.append(V("C01", "zst_output_drop_per_sample", "thread %d sample %d: %d ZST outputs dropped after %d calls" % (tv.tid, i, nd, w.calls), [w.s, w.e]))
                if refs_form and ishape == "zd":
                    nd = sum(1 for ev in after if ev.kind == E.DROP_IN)
                    if nd != w.calls:
                        out.append(V("C01", "zst_input_drop_per_sample", "thread %d sample %d: %d lent ZST inputs dropped after %d calls" % (tv.tid, i, nd, w.calls), [w.s, w.e]))
                    # each lent ZST input is dropped after an output of the same slot
                    if out_drop:
                        seq_kinds = [ev.kind for ev in after if ev.kind in (E.DROP_OUT, E.DROP_IN)]
                        bal = 0
                        for kd in seq_kinds:
                            bal += 1 if kd == E.DROP_OUT else -1
                            if bal < 0:
                                out.append(V("C01", "input_dropped_before_output", "thread %d sample %d: a lent input dropped before an output" % (tv.tid, i), [w.e]))
                                break

    stats = {"inputs_with_id": len(by_id), "outputs_with_id": len(out_events), "calls": an.total_calls(),
             "threads": len(per_thread), "panic_run": panic_run}
    return out, stats


# ---------------------------------------------------------------------------
# C02
# ---------------------------------------------------------------------------

ALLOC_NAMES = ("alloc", "alloc_zeroed", "realloc", "dealloc")


def model_tally(alloc_events):
    """Reference model of a thread's tally over a sequence of allocator operations."""
    t = {"grow": [0, 0], "shrink": [0, 0], "alloc": [0, 0], "dealloc": [0, 0], "eq_realloc": 0}
    cur_c = cur_s = max_c = max_s = 0
    for ev in alloc_events:
        op = ev.a & 0xFF
        size, new = ev.b, ev.c
        if op in (0, 1):
            t["alloc"][0] += 1
            t["alloc"][1] += size
            cur_c += 1
            cur_s += size
        elif op == 3:
            t["dealloc"][0] += 1
            t["dealloc"][1] += size
            cur_c -= 1
            cur_s -= size
        else:
            if new > size:
                t["grow"][0] += 1
                t["grow"][1] += new - size
            elif new < size:
                t["shrink"][0] += 1
                t["shrink"][1] += size - new
            else:
                t["eq_realloc"] += 1
            cur_s += new - size
        max_c = max(max_c, cur_c)
        max_s = max(max_s, cur_s)
    t["max_count"], t["max_size"] = max_c, max_s
    return t


def tally_matches(model, rep):
    """rep: reported tally dict or None (absent = all zero)."""
    if rep is None:
        rep = {"grow": (0, 0), "shrink": (0, 0), "alloc": (0, 0), "dealloc": (0, 0), "max_count": 0, "max_size": 0}
    for op in ("alloc", "dealloc"):
        if tuple(model[op]) != tuple(rep[op]):
            return False
    eq = model["eq_realloc"]
    g, s = model["grow"], model["shrink"]
    rg, rs = rep["grow"], rep["shrink"]
    # equal-size reallocations add 0 bytes and may be counted in either bucket
    if rg[1] != g[1] or rs[1] != s[1]:
        return False
    if not (g[0] <= rg[0] <= g[0] + eq and s[0] <= rs[0] <= s[0] + eq and rg[0] + rs[0] == g[0] + s[0] + eq):
        return False
    return model["max_count"] == rep["max_count"] and model["max_size"] == rep["max_size"]


def model_key(m):
    return (tuple(m["alloc"]), tuple(m["dealloc"]), tuple(m["grow"]), tuple(m["shrink"]), m["eq_realloc"], m["max_count"], m["max_size"])


def window_alloc_events(w):
    return [ev for ev in w.inner if ev.kind == E.ALLOC_OP]


def recorded_rounds(an):
    """Rounds whose samples are in the report: the last len(samples)/T rounds."""
    rep = an.run.report
    if rep is None:
        return []
    T = max(1, an.cfg.eff_T)
    nrec = len(rep["samples"]) // T
    if nrec == 0:
        return []
    return list(range(len(an.rounds) - nrec, len(an.rounds)))


def check_c02_real_clock(an):
    """Runs on the real OS clock (no scripted source, so the real calibration and overhead code runs): timestamps are not
    observable, but the allocator operations inside the benchmarked calls are, and with an explicit sample size the calls
    of a thread fall into its samples in order. The record stored for a sample must be the operations of its own calls
    (the scripted-clock runs establish that nothing else happens inside a timed section)."""
    out = []
    run, cfg = an.run, an.cfg
    rep = run.report
    if rep is None or cfg.test or cfg.tuned or cfg.s <= 0 or run.status != "ok":
        return out, {"skipped": "OS timer: needs an explicit sample size"}
    T, s = max(1, cfg.eff_T), cfg.s
    per_thread = []
    for tv in an.threads.values():
        calls, cur = [], None
        for ev in tv.events:
            if ev.kind == E.CALL_BEGIN:
                cur = []
            elif ev.kind == E.CALL_END and cur is not None:
                calls.append(cur)
                cur = None
            elif cur is not None and ev.kind == E.ALLOC_OP:
                cur.append(ev)
        if calls:
            per_thread.append(calls)
    if len(per_thread) != T or any(len(c) % s for c in per_thread) or len({len(c) for c in per_thread}) != 1:
        return out, {"skipped": "OS timer: calls do not split into samples"}
    nrounds = len(per_thread[0]) // s
    if len(rep["samples"]) != nrounds * T:
        return out, {"skipped": "OS timer: not every round was recorded"}
    compared = 0
    for j in range(nrounds):
        models = [model_tally([ev for call in calls[j * s:(j + 1) * s] for ev in call]) for calls in per_thread]
        reps = [rep["alloc"].get(j * T + i) for i in range(T)]
        compared += T
        if not _match_multiset(models, reps):
            out.append(V("C02", "alloc_figures_mismatch", "real OS clock, round %d: reported allocation figures %s do not match the operations inside the samples' calls %s" % (
                j, reps, [model_key(m) for m in models])))
            break
    return out, {"real_clock_runs": 1, "samples_compared": compared, "real_clock_samples_compared": compared}


def check_c02(an):
    out = []
    run, cfg = an.run, an.cfg
    if run.status != "ok":
        return out, {"skipped": "panic run"}
    if not cfg.tsc:
        return check_c02_real_clock(an)
    n_windows = n_alloc_in_calls = 0
    for tv in an.threads.values():
        in_window = set()
        for w in tv.windows:
            n_windows += 1
            depth = 0
            for ev in w.inner:
                in_window.add(ev.seq)
                if ev.kind == E.CALL_BEGIN:
                    depth += 1
                elif ev.kind == E.CALL_END:
                    depth -= 1
                elif ev.kind in (E.GEN, E.COUNT, E.DROP_OUT):
                    out.append(V("C02", "foreign_event_in_window", "%s inside a timed section" % E.KIND_NAMES[ev.kind], [w.s, ev, w.e]))
                elif ev.kind == E.DROP_IN:
                    if depth <= 0:
                        out.append(V("C02", "foreign_event_in_window", "input dropped inside a timed section outside any call", [w.s, ev, w.e]))
                elif ev.kind == E.POINT and 20 <= ev.a <= 25:
                    # hooks 20-25 sit in the round synchronisation (barrier waits, tally reset), which belongs before the
                    # start timestamp or after the end timestamp
                    out.append(V("C02", "sync_in_window", "round synchronisation (hook %d: barrier wait / tally reset) inside a timed section" % ev.a, [w.s, ev, w.e]))
                elif ev.kind == E.ALLOC_OP:
                    if depth <= 0:
                        out.append(V("C02", "alloc_in_window_outside_call", "allocator operation inside a timed section outside any call", [w.s, ev, w.e]))
                    else:
                        n_alloc_in_calls += 1
        for ev in tv.events:
            if ev.kind == E.CALL_BEGIN and ev.seq not in in_window:
                out.append(V("C02", "call_outside_window", "benchmarked call outside any timed section", [ev]))
                break

    # Reported per-sample allocation figures vs. the operations inside the window.
    rep = run.report
    compared = 0
    if rep is not None and not cfg.test and an.rounds:
        T = max(1, cfg.eff_T)
        rec = recorded_rounds(an)
        for j, r in enumerate(rec):
            wins = an.rounds[r]
            models = [model_tally(window_alloc_events(w)) for w in wins.values()]
            reps = [rep["alloc"].get(j * T + i) for i in range(T)]
            # matching (bipartite, small T) between windows and samples: same allocation figures and same duration
            km, kr = round_durations(an, r, rep, j, T)
            if not _match_multiset(models, reps, km, kr):
                out.append(V("C02", "alloc_figures_mismatch",
                             "round %d: reported allocation figures %s (sample durations %s) do not match the operations inside the windows %s (window durations %s)" % (r, reps, kr, [model_key(m) for m in models], km),
                             [w.s for w in wins.values()]))
            compared += len(models)
    return out, {"windows": n_windows, "alloc_ops_in_calls": n_alloc_in_calls, "samples_compared": compared}


def round_durations(an, r, rep, j, T):
    """(durations the loop must have recorded for round r's windows, durations it reports for samples j*T..), or (None, None)
    when the clock is not the virtual one. Used to tie an allocation record to *its* sample, not just to its round."""
    cfg = an.cfg
    if not cfg.tsc:
        return None, None
    precision = cfg.conv(cfg.q) if cfg.tuned else 0
    exp = []
    for w in an.rounds[r].values():
        d = cfg.conv(w.ticks())
        exp.append(d if d else precision)
    got = [rep["samples"][j * T + i] if j * T + i < len(rep["samples"]) else None for i in range(T)]
    return exp, got


def _match_multiset(models, reps, keys_m=None, keys_r=None):
    """Perfect matching between modelled and reported tallies; with keys, partners must also agree on the key (the sample's duration)."""
    if len(models) != len(reps):
        return False
    n = len(models)
    keyed = keys_m is not None and keys_r is not None and len(keys_m) == n and len(keys_r) == n
    adj = [[j for j in range(n) if tally_matches(models[i], reps[j]) and (not keyed or keys_m[i] == keys_r[j])] for i in range(n)]
    match = [-1] * n

    def try_(i, seen):
        for j in adj[i]:
            if j in seen:
                continue
            seen.add(j)
            if match[j] == -1 or try_(match[j], seen):
                match[j] = i
                return True
        return False

    return all(try_(i, set()) for i in range(n))


# ---------------------------------------------------------------------------
# C03
# ---------------------------------------------------------------------------

def check_c03(an):
    out = []
    run, cfg = an.run, an.cfg
    if run.status != "ok":
        return out, {"skipped": "panic run"}
    rep = run.report
    calls = an.total_calls()
    T = cfg.eff_T
    max_zero = cfg.max_ns == 0
    limits_off = (cfg.min_ns in (None, 0)) and cfg.max_ns is None
    per_thread_calls = Counter(ev.tid for ev in run.events if ev.kind == E.CALL_BEGIN)
    info = {"calls": calls, "threads": len(per_thread_calls)}
    if cfg.n == 0 or cfg.s == 0 or max_zero:
        if calls != 0:
            out.append(V("C03", "called_with_zero_budget", "%d calls although n=%s s=%s max_time=%s" % (calls, cfg.n, cfg.s, cfg.max_ns)))
        if rep and rep["samples"]:
            out.append(V("C03", "samples_with_zero_budget", "%d samples recorded with a zero budget" % len(rep["samples"])))
        if rep and rep["stats"] and "panic" not in rep["stats"]:
            st = rep["stats"]
            if st["sample_count"] != 0 or st["iter_count"] != 0:
                out.append(V("C03", "figures_mismatch", "samples/iters figures %d/%d with nothing recorded" % (st["sample_count"], st["iter_count"])))
        return out, info
    if cfg.test:
        if len(per_thread_calls) != T or any(v != 1 for v in per_thread_calls.values()):
            out.append(V("C03", "test_mode_calls", "test mode: calls per thread %s, expected exactly one on each of %d threads" % (dict(per_thread_calls), T)))
        if an.caller_tid not in per_thread_calls:
            out.append(V("C03", "caller_not_a_thread", "test mode: the calling thread made no call"))
        if rep and (rep["samples"] or rep["cap"] != 0):
            out.append(V("C03", "test_mode_stores_samples", "test mode stored samples (len %d, capacity %d)" % (len(rep["samples"]), rep["cap"])))
        return out, info
    if cfg.n != 0 and cfg.s > 0 and not max_zero and calls == 0 and not cfg.test:
        out.append(V("C03", "not_called_with_budget", "no call at all although sample_count=%s, sample_size=%s and max_time=%s are all non-zero (the first round always runs)" % (cfg.n, cfg.s, cfg.max_ns)))
    limit_not_reached = False
    if (not cfg.tuned) and cfg.tsc and cfg.max_ns is not None and cfg.min_ns in (None, 0) and an.rounds:
        # a max_time is set: the exact-count clause still applies if, by the documented rule, the budget was not used up after
        # the last round that ran (stopping short of the configured count is then not the time limit's doing)
        if cfg.skip == 1:
            elapsed = sum(max(1000, max(cfg.conv(w.ticks()) for w in wins.values())) for wins in an.rounds)
        else:
            init, _n = an.initial_start()
            elapsed = cfg.conv(max(w.e.a for w in an.rounds[-1].values()) - init.a) if init is not None else None
        limit_not_reached = elapsed is not None and elapsed < cfg.max_ps()
        info["runs_with_unreached_max_time"] = int(limit_not_reached)
    if cfg.tuned or not (limits_off or limit_not_reached):
        # the exact-count clause needs s and n in force and no time limit
        if rep and rep["stats"] and "panic" not in rep["stats"]:
            st = rep["stats"]
            if st["sample_count"] != len(rep["samples"]) or st["iter_count"] != len(rep["samples"]) * rep["sample_size"]:
                out.append(V("C03", "figures_mismatch", "samples/iters figures %d/%d, recorded %d samples of %d" % (st["sample_count"], st["iter_count"], len(rep["samples"]), rep["sample_size"])))
        return out, info
    s, n = cfg.s, cfg.eff_n
    per = -(-n // T)
    if not cfg.tsc:
        # OS timer (not scriptable): no timestamp events; judge the call counts per thread and the report only
        info["os_timer_runs"] = 1
        if len(per_thread_calls) != T or any(v != per * s for v in per_thread_calls.values()):
            out.append(V("C03", "calls_per_thread_os_timer", "calls per thread %s, expected %d on each of %d threads" % (dict(per_thread_calls), per * s, T)))
        if an.caller_tid not in per_thread_calls:
            out.append(V("C03", "caller_not_a_thread", "the calling thread made no call"))
        if rep is not None and len(rep["samples"]) != T * per:
            out.append(V("C03", "recorded_samples", "%d samples recorded, expected %d" % (len(rep["samples"]), T * per)))
        return out, info
    workers = an.worker_threads()
    if len(workers) != T:
        out.append(V("C03", "thread_count", "%d threads took samples, expected %d" % (len(workers), T)))
    if an.caller_tid not in [tv.tid for tv in workers]:
        out.append(V("C03", "caller_not_a_thread", "the calling thread took no sample"))
    for tv in workers:
        if len(tv.sample_windows) != per:
            out.append(V("C03", "samples_per_thread", "thread %d took %d samples, expected ceil(%d/%d)=%d" % (tv.tid, len(tv.sample_windows), n, T, per)))
        for w in tv.sample_windows:
            if w.calls != s:
                out.append(V("C03", "calls_per_sample", "thread %d sample %d has %d calls, expected %d" % (tv.tid, w.ordinal, w.calls, s), [w.s, w.e]))
                break
    if calls != s * T * per:
        out.append(V("C03", "total_calls", "%d calls, expected s*T*ceil(n/T) = %d*%d*%d = %d" % (calls, s, T, per, s * T * per)))
    if rep is not None:
        if len(rep["samples"]) != T * per:
            out.append(V("C03", "recorded_samples", "%d samples recorded, expected %d" % (len(rep["samples"]), T * per)))
        st = rep["stats"]
        if st and "panic" not in st:
            if st["sample_count"] != len(rep["samples"]) or st["iter_count"] != len(rep["samples"]) * s:
                out.append(V("C03", "figures_mismatch", "samples/iters figures %d/%d, recorded %d samples of %d" % (st["sample_count"], st["iter_count"], len(rep["samples"]), s)))
    return out, info


# ---------------------------------------------------------------------------
# C04 + C19: replay of the documented stopping / tuning rule on logged readings
# ---------------------------------------------------------------------------

def simulate(an):
    """Replays the documented rule over the observed rounds.

    Returns dict(expected_rounds, observed_rounds, sizes (expected per round), recorded (list of lists of
    expected recorded durations per round), verdicts list).
    """
    cfg = an.cfg
    problems = []
    obs = an.rounds
    n = cfg.eff_n
    T = cfg.eff_T
    min_ps = cfg.min_ps()
    max_ps = cfg.max_ps()
    init, n_lone = an.initial_start()
    skip = cfg.skip == 1
    precision = cfg.conv(cfg.q) if cfg.tuned else 0
    if cfg.test:
        mode, size, rem = "test", 1, None
    elif cfg.s >= 0:
        mode, size, rem = "collect", cfg.s, n
    else:
        mode, size, rem = "tune", 1, None
    elapsed = 0
    r = 0
    recorded = []   # list of (round index, [durations])
    sizes = []
    if (max_ps is not None and max_ps == 0) or cfg.n == 0 or cfg.s == 0:
        return {"expected_rounds": 0, "observed_rounds": len(obs), "sizes": [], "recorded": [], "problems": problems,
                "final_size": None, "precision": precision, "n_lone": n_lone, "stopped_by": "zero budget"}
    stopped_by = None
    while True:
        if max_ps is not None and elapsed >= max_ps:
            stopped_by = "max_time"
            break
        if (rem if rem is not None else 1) > 0:
            pass
        elif elapsed < min_ps:
            pass
        else:
            stopped_by = "count+min_time"
            break
        if r >= len(obs):
            problems.append(("stopped_early", "run stopped after %d rounds although the rule demands more (elapsed %d ps, max %s, min %d, remaining %s)" % (len(obs), elapsed, max_ps, min_ps, rem)))
            break
        wins = obs[r]
        sizes.append(size)
        durs = [cfg.conv(w.ticks()) for w in wins.values()]
        slowest = max(durs)
        if mode == "test":
            r += 1
            stopped_by = "test"
            break
        if mode == "tune":
            recorded = []
            if precision > 0 and slowest // precision <= 100:
                mode, next_size = "tune", size * 2
            else:
                mode, next_size, rem = "collect", size, n
        else:
            next_size = size
        recorded.append((r, sorted((d if d != 0 else precision) for d in durs), size))
        if rem is not None:
            rem = max(0, rem - len(durs))
        if not skip:
            if init is None:
                problems.append(("no_initial_start", "no start timestamp was taken before the first sample although skip_ext_time is off"))
                last_end = max(w.e.a for w in wins.values())
                elapsed = 0
            else:
                last_end = max(w.e.a for w in wins.values())
                elapsed = cfg.conv(last_end - init.a)
        else:
            elapsed = elapsed + max(slowest, 1000)
        size = next_size
        r += 1
    if r < len(obs) and not problems:
        problems.append(("ran_too_long", "run executed %d rounds, the rule stops after %d (%s; elapsed %d ps, max %s, min %d)" % (len(obs), r, stopped_by, elapsed, max_ps, min_ps)))
    return {"expected_rounds": r, "observed_rounds": len(obs), "sizes": sizes, "recorded": recorded, "problems": problems,
            "final_size": (recorded[-1][2] if recorded else None), "precision": precision, "n_lone": n_lone, "stopped_by": stopped_by,
            "elapsed": elapsed}


def check_c04(an):
    out = []
    run, cfg = an.run, an.cfg
    if run.status != "ok" or not cfg.tsc:
        return out, {"skipped": "panic run / OS timer"}
    sim = simulate(an)
    for code, msg in sim["problems"]:
        out.append(V("C04", code, msg, [w.e for w in (an.rounds[-1].values() if an.rounds else [])]))
    # the start reading that anchors elapsed time
    if sim["expected_rounds"] > 0 or sim["observed_rounds"] > 0:
        want = 0 if cfg.skip == 1 else 1
        if sim["n_lone"] != want:
            out.append(V("C04", "initial_start_reads", "%d start timestamps taken outside samples, expected %d (skip_ext_time=%s)" % (sim["n_lone"], want, cfg.skip)))
    # elapsed time runs from just before the first sample: the anchoring start reading precedes every generation / call event
    init, _n = an.initial_start()
    if init is not None and cfg.skip != 1:
        first = next((ev for ev in run.events if ev.kind in (E.GEN, E.COUNT, E.CALL_BEGIN)), None)
        if first is not None and first.seq < init.seq:
            out.append(V("C04", "initial_start_late", "the start timestamp that anchors elapsed time was taken after the run had begun generating / calling", [first, init]))
    for tv in an.worker_threads():
        if len(tv.sample_windows) != len(an.rounds):
            out.append(V("C04", "ragged_rounds", "thread %d took %d samples, others %d" % (tv.tid, len(tv.sample_windows), len(an.rounds))))
    return out, {"rounds": sim["observed_rounds"], "expected_rounds": sim["expected_rounds"], "stopped_by": sim["stopped_by"],
                 "elapsed_ps": sim.get("elapsed", 0)}


def check_c19(an):
    out = []
    run, cfg = an.run, an.cfg
    if run.status != "ok" or not cfg.tuned or not cfg.tsc:
        return out, {"skipped": "not a tuned ok run on the virtual clock"}
    sim = simulate(an)
    for code, msg in sim["problems"]:
        out.append(V("C19", code, msg))
    # sizes of successive rounds
    for r, wins in enumerate(an.rounds):
        if r >= len(sim["sizes"]):
            break
        for w in wins.values():
            if w.calls != sim["sizes"][r]:
                out.append(V("C19", "round_size", "round %d ran %d iterations per sample, the rule gives %d" % (r, w.calls, sim["sizes"][r]), [w.s, w.e]))
                break
    rep = run.report
    if rep is not None and sim["expected_rounds"] == sim["observed_rounds"] and not sim["problems"]:
        exp = []
        for (_r, durs, _size) in sim["recorded"]:
            exp.extend(durs)
        if sorted(rep["samples"]) != sorted(exp):
            out.append(V("C19", "recorded_samples", "report holds %d samples %s..., the rule keeps %d %s..." % (len(rep["samples"]), sorted(rep["samples"])[:6], len(exp), sorted(exp)[:6])))
        else:
            # per round multiset
            T = max(1, cfg.eff_T)
            for j, (_r, durs, _size) in enumerate(sim["recorded"]):
                got = sorted(rep["samples"][j * T:(j + 1) * T])
                if got != durs:
                    out.append(V("C19", "recorded_samples_order", "recorded round %d holds %s, expected %s" % (j, got, durs)))
                    break
        if sim["final_size"] is not None and rep["sample_size"] != sim["final_size"]:
            out.append(V("C19", "final_size", "reported sample size %d, the rule ends at %d" % (rep["sample_size"], sim["final_size"])))
        nrec = len(rep["samples"])
        T_ = max(1, cfg.eff_T)
        recr = recorded_rounds(an)
        for j, r in enumerate(recr):
            wins = an.rounds[r]
            models = [model_tally(window_alloc_events(w)) for w in wins.values()]
            reps = [rep["alloc"].get(j * T_ + i) for i in range(T_)]
            if not _match_multiset(models, reps):
                out.append(V("C19", "alloc_data_of_discarded_round", "recorded round %d carries allocation records %s that are not those of its own samples %s (data of a discarded tuning round survived)" % (
                    j, reps, [model_key(m) for m in models])))
                break
        bad_keys = [k for k in rep["alloc"] if k >= nrec]
        if bad_keys:
            out.append(V("C19", "stale_alloc_data", "allocation records for sample indices %s beyond the %d recorded samples" % (bad_keys, nrec)))
        for kind in range(4):
            if rep["uses"][kind] and len(rep["counters"][kind]) != nrec:
                out.append(V("C19", "stale_counter_data", "counter kind %d holds %d per-sample values for %d recorded samples" % (kind, len(rep["counters"][kind]), nrec)))
        st = rep["stats"]
        if st and "panic" not in st and sim["final_size"] is not None:
            if st["sample_count"] != nrec or st["iter_count"] != nrec * sim["final_size"]:
                out.append(V("C19", "figures_mismatch", "samples/iters %d/%d for %d recorded samples of size %d" % (st["sample_count"], st["iter_count"], nrec, sim["final_size"])))
    return out, {"rounds": sim["observed_rounds"], "sizes": sim["sizes"], "final_size": sim["final_size"], "precision_ps": sim["precision"],
                 "stopped_by": sim["stopped_by"], "tuning_rounds": max(0, sim["observed_rounds"] - len(sim["recorded"]))}


# ---------------------------------------------------------------------------
# C05
# ---------------------------------------------------------------------------

OPS = ("grow", "shrink", "alloc", "dealloc")


def _close(a, b):
    if math.isnan(a) or math.isnan(b):
        return False
    if a == b:
        return True
    return abs(a - b) <= 1e-9 * max(abs(a), abs(b), 1e-300)


def _alloc_vec(rec, s):
    """Per-iteration figures of one sample: tuple of 10 floats."""
    if rec is None:
        return tuple([0.0] * 10)
    v = []
    for op in OPS:
        v.append(rec[op][0] / s)
        v.append(rec[op][1] / s)
    v.append(rec["max_count"] / s)
    v.append(rec["max_size"] / s)
    return tuple(v)


def _stats_alloc_vec(st, col):
    v = []
    for i, op in enumerate(OPS):
        v.append(st["ac"][i][col])
        v.append(st["as"][i][col])
    v.append(st["max_count"][col])
    v.append(st["max_size"][col])
    return tuple(v)


def check_c05(an):
    out = []
    run, cfg = an.run, an.cfg
    rep = run.report
    if run.status != "ok" or rep is None:
        return out, {"skipped": "no report"}
    st = rep["stats"]
    if st is None:
        return out, {"skipped": "no stats (test mode or did not run)"}
    if "panic" in st:
        out.append(V("C05", "compute_stats_panic", "computing statistics panicked: %s (samples=%d, sample_size=%d)" % (st["panic"], len(rep["samples"]), rep["sample_size"])))
        return out, {"samples": len(rep["samples"])}
    samples = rep["samples"]
    m = len(samples)
    s = rep["sample_size"]
    info = {"samples": m, "ties": 0, "nan_fields": 0}
    floats = list(st["max_count"]) + list(st["max_size"]) + [x for i in range(4) for x in st["ac"][i]] + [x for i in range(4) for x in st["as"][i]]
    info["nan_fields"] = sum(1 for x in floats if math.isnan(x))
    if info["nan_fields"]:
        out.append(V("C05", "nan_in_stats", "%d allocation figures of the statistics are NaN (the table prints every non-zero row, so they would be printed); samples=%d sample_size=%d" % (info["nan_fields"], m, s)))
    if st["sample_count"] != m or st["iter_count"] != m * s:
        out.append(V("C05", "figures_mismatch", "sample_count/iter_count %d/%d for %d samples of size %d" % (st["sample_count"], st["iter_count"], m, s)))
    if m == 0:
        if any(st["time"]):
            out.append(V("C05", "time_without_samples", "time statistics %s with no samples" % st["time"]))
        return out, info
    srt = sorted(samples)
    fastest, slowest = srt[0] // s, srt[-1] // s
    if m % 2:
        med = srt[m // 2] // s
        mids = [m // 2]
    else:
        med = ((srt[m // 2 - 1] + srt[m // 2]) // 2) // s
        mids = [m // 2 - 1, m // 2]
    mean = sum(samples) // (m * s)
    exp = [fastest, slowest, med, mean]
    if st["time"] != exp:
        out.append(V("C05", "time_stats", "time statistics %s, exact order statistics %s (n=%d, s=%d)" % (st["time"], exp, m, s), []))
    t = st["time"]
    if not (t[0] <= t[2] <= t[1] and t[0] <= t[3] <= t[1]):
        out.append(V("C05", "ordering", "fastest/slowest/median/mean out of order: %s" % t))
    info["ties"] = m - len(set(samples))
    alloc = rep["alloc"]
    # fastest / slowest: figures of some sample that supplied that time
    for col, val, name in ((0, srt[0], "fastest"), (1, srt[-1], "slowest")):
        cands = [i for i in range(m) if samples[i] == val]
        got = _stats_alloc_vec(st, col)
        if not any(all(_close(a, b) for a, b in zip(_alloc_vec(alloc.get(i), s), got)) for i in cands):
            out.append(V("C05", "alloc_under_" + name, "allocation figures under %s %s are not those of a sample with that time (candidates %s)" % (name, got, [(i, _alloc_vec(alloc.get(i), s)) for i in cands[:4]])))
    # median
    got = _stats_alloc_vec(st, 2)
    if len(mids) == 1:
        cands = [i for i in range(m) if samples[i] == srt[mids[0]]]
        ok = any(all(_close(a, b) for a, b in zip(_alloc_vec(alloc.get(i), s), got)) for i in cands)
    else:
        # every sample tied with a middle one is a candidate (no cap: a capped list raised a false alarm on 132 tied samples)
        ca = [i for i in range(m) if samples[i] == srt[mids[0]]]
        cb = [i for i in range(m) if samples[i] == srt[mids[1]]]
        vecs = {i: _alloc_vec(alloc.get(i), s) for i in set(ca) | set(cb)}
        # distinct vectors only: ties are usually many samples with few distinct figures
        da = {}
        for i in ca:
            da.setdefault(vecs[i], []).append(i)
        db = {}
        for j in cb:
            db.setdefault(vecs[j], []).append(j)
        ok = False
        for va, ia in da.items():
            for vb, jb in db.items():
                if len(set(ia) | set(jb)) < 2:
                    continue
                if all(_close((a + b) / 2, g) for a, b, g in zip(va, vb, got)):
                    ok = True
                    break
            if ok:
                break
    if not ok:
        out.append(V("C05", "alloc_under_median", "allocation figures under median %s are not those of the median sample(s)" % (got,)))
    # means over all samples and iterations
    total_iters = m * s
    exp_mean = []
    for op in OPS:
        exp_mean.append(sum(r[op][0] for r in alloc.values()) / total_iters)
        exp_mean.append(sum(r[op][1] for r in alloc.values()) / total_iters)
    exp_mean.append(sum(r["max_count"] for r in alloc.values()) / total_iters)
    exp_mean.append(sum(r["max_size"] for r in alloc.values()) / total_iters)
    got = _stats_alloc_vec(st, 3)
    if not all(_close(a, b) for a, b in zip(exp_mean, got)):
        out.append(V("C05", "alloc_mean", "mean allocation figures %s, expected %s" % (got, tuple(exp_mean))))
    # counters
    for kind in range(4):
        counts = rep["counters"][kind]
        sc = st["counts"].get(kind)
        if not counts:
            if sc is not None:
                out.append(V("C05", "phantom_counter", "counter kind %d reported %s without any count" % (kind, sc)))
            continue
        if sc is None:
            out.append(V("C05", "missing_counter", "counter kind %d has counts but no statistics" % kind))
            continue
        per_sample = rep["uses"][kind]
        if kind in cfg.bc_late and (per_sample or counts != [cfg.bc_late[kind]]):
            out.append(V("C05", "constant_counter_not_in_force", "counter kind %d was set to the constant %d after a per-input counter of that kind; the loop recorded %s (per-input counting %s)" % (
                kind, cfg.bc_late[kind], counts[:8], "still on" if per_sample else "off")))
            continue
        if per_sample and len(counts) != m:
            out.append(V("C05", "counter_len", "counter kind %d has %d per-sample values for %d samples" % (kind, len(counts), m)))
            continue
        val = (lambda i: counts[i]) if per_sample else (lambda i: counts[0])
        for col, v, name in ((0, srt[0], "fastest"), (1, srt[-1], "slowest")):
            cands = {val(i) for i in range(m) if samples[i] == v}
            if sc[col] not in cands:
                out.append(V("C05", "counter_under_" + name, "counter kind %d under %s is %d, samples with that time have %s" % (kind, name, sc[col], sorted(cands)[:8])))
        if len(mids) == 1:
            cands = {val(i) for i in range(m) if samples[i] == srt[mids[0]]}
        else:
            ca = [i for i in range(m) if samples[i] == srt[mids[0]]]
            cb = [i for i in range(m) if samples[i] == srt[mids[1]]]
            va_, vb_ = {}, {}
            for i in ca:
                va_.setdefault(val(i), set()).add(i)
            for j in cb:
                vb_.setdefault(val(j), set()).add(j)
            cands = {(x + y) // 2 for x, sx in va_.items() for y, sy in vb_.items() if len(sx | sy) >= 2}
        if sc[2] not in cands:
            out.append(V("C05", "counter_under_median", "counter kind %d under median is %d, expected one of %s" % (kind, sc[2], sorted(cands)[:8])))
        exp_mean_c = sum(counts) // len(counts)
        if sc[3] != exp_mean_c:
            out.append(V("C05", "counter_mean", "counter kind %d mean %d, expected %d" % (kind, sc[3], exp_mean_c)))
    return out, info


def check_c05_chain(an):
    """Recorded samples and per-input counter values vs. the clock readings / count events of the log."""
    out = []
    run, cfg = an.run, an.cfg
    rep = run.report
    if run.status != "ok" or rep is None or cfg.test or not an.rounds or not cfg.tsc:
        return out, {}
    T = max(1, cfg.eff_T)
    rec = recorded_rounds(an)
    precision = cfg.conv(cfg.q) if cfg.tuned else 0
    s = rep["sample_size"]
    checked = 0
    for j, r in enumerate(rec):
        wins = an.rounds[r]
        exp = []
        for tid, w in wins.items():
            d = cfg.conv(w.ticks())
            if d == 0:
                d = precision
            tv = an.threads[tid]
            # count events of this thread since its previous window
            lo = tv.sample_windows[w.ordinal - 1].e.seq if w.ordinal > 0 else -1
            sums = [0, 0, 0, 0]
            for ev in tv.events:
                if ev.seq > lo and ev.seq < w.s.seq and ev.kind == E.COUNT:
                    sums[ev.b] += ev.c
            exp.append((d, tuple((sums[k] // s) if (k in cfg.ic and s) else -1 for k in range(4))))
        got = []
        for i in range(T):
            idx = j * T + i
            if idx >= len(rep["samples"]):
                break
            got.append((rep["samples"][idx], tuple((rep["counters"][k][idx] if (k in cfg.ic and idx < len(rep["counters"][k])) else -1) for k in range(4))))
        if s and any(w.calls != s for w in wins.values()):
            out.append(V("C05", "sample_size_not_iterations", "recorded round %d: reported sample size %d, but its samples ran %s calls (every figure is divided by the sample size)" % (
                j, s, sorted(w.calls for w in wins.values())), [w.s for w in wins.values()]))
        if sorted(exp) != sorted(got):
            out.append(V("C05", "recorded_vs_clock", "recorded round %d: (duration, per-input counts) %s, clock readings and count events give %s" % (j, sorted(got), sorted(exp)), [w.s for w in wins.values()]))
        checked += len(got)
    # the allocation record attached to each recorded sample must be that of its own window (not of a discarded round)
    for j, r in enumerate(rec):
        wins = an.rounds[r]
        models = [model_tally(window_alloc_events(w)) for w in wins.values()]
        reps = [rep["alloc"].get(j * T + i) for i in range(T)]
        km, kr = round_durations(an, r, rep, j, T)
        if not _match_multiset(models, reps, km, kr):
            out.append(V("C05", "alloc_record_of_other_sample", "recorded round %d: allocation records %s are not those of the samples' own timed sections %s" % (
                j, reps, [model_key(m) for m in models]), [w.s for w in wins.values()]))
            break
    # count_inputs_as: per-sample value = sum of the inputs themselves / s
    for kind in cfg.countas:
        for j, r in enumerate(rec):
            wins = an.rounds[r]
            exp = []
            for tid, w in wins.items():
                ids = [ev.a for ev in w.inner if ev.kind == E.CALL_BEGIN]
                exp.append(sum(ids) // s if s else 0)
            got = rep["counters"][kind][j * T:(j + 1) * T]
            if sorted(exp) != sorted(got):
                out.append(V("C05", "count_inputs_as", "recorded round %d: counter kind %d values %s, inputs give %s" % (j, kind, sorted(got), sorted(exp))))
    return out, {"chain_samples": checked}


# ---------------------------------------------------------------------------
# C08 ordering
# ---------------------------------------------------------------------------

def check_c08_order(an):
    out = []
    run, cfg = an.run, an.cfg
    if run.status != "ok" or cfg.eff_T < 2:
        return out, {"skipped": "needs an ok run on T>1"}
    rounds_checked = drop_rounds = clear_rounds = 0
    for r, wins in enumerate(an.rounds):
        if len(wins) < 2:
            out.append(V("C08", "ragged_round", "round %d has windows on %d threads" % (r, len(wins))))
            continue
        first_start = min(wins.values(), key=lambda w: w.s.seq)
        last_pre = None
        last_clear = None
        first_drop = None
        last_end = max(wins.values(), key=lambda w: w.e.seq)
        for tid, w in wins.items():
            tv = an.threads[tid]
            lo = tv.sample_windows[w.ordinal - 1].e.seq if w.ordinal > 0 else -1
            hi = tv.sample_windows[w.ordinal + 1].s.seq if w.ordinal + 1 < len(tv.sample_windows) else None
            cleared = False
            # a value dropped inside the thread's own timed section is dropped before anyone's end timestamp of this round
            depth = 0
            for ev in w.inner:
                if ev.kind == E.CALL_BEGIN:
                    depth += 1
                elif ev.kind == E.CALL_END:
                    depth -= 1
                elif ev.kind == E.DROP_OUT or (ev.kind == E.DROP_IN and depth <= 0):
                    if first_drop is None or ev.seq < first_drop.seq:
                        first_drop = ev
                    break
            for ev in tv.events:
                if lo < ev.seq < w.s.seq:
                    if ev.kind in (E.GEN, E.COUNT):
                        if last_pre is None or ev.seq > last_pre.seq:
                            last_pre = ev
                    elif ev.kind == E.POINT and ev.a == 22:
                        cleared = True
                        if last_clear is None or ev.seq > last_clear.seq:
                            last_clear = ev
                elif ev.seq > w.e.seq and (hi is None or ev.seq < hi):
                    if ev.kind in (E.DROP_OUT, E.DROP_IN):
                        if first_drop is None or ev.seq < first_drop.seq:
                            first_drop = ev
                        break
            if not cleared and any(e.kind == E.POINT for e in tv.events):
                out.append(V("C08", "tally_not_cleared", "round %d: thread %d took its start timestamp without its tally having been cleared" % (r, tid), [w.s]))
        rounds_checked += 1
        if last_pre is not None and last_pre.seq > first_start.s.seq:
            out.append(V("C08", "start_before_all_generated", "round %d: a start timestamp was taken before another thread finished generating inputs" % r, [first_start.s, last_pre]))
        if last_clear is not None:
            clear_rounds += 1
            if last_clear.seq > first_start.s.seq:
                out.append(V("C08", "start_before_all_cleared", "round %d: a start timestamp was taken before another thread's tally was cleared" % r, [first_start.s, last_clear]))
        if first_drop is not None:
            drop_rounds += 1
            if first_drop.seq < last_end.e.seq:
                out.append(V("C08", "drop_before_all_ended", "round %d: a thread started dropping before another took its end timestamp" % r, [first_drop, last_end.e]))
    return out, {"rounds_checked": rounds_checked, "rounds_with_drops": drop_rounds, "rounds_with_clear_points": clear_rounds}


def check_c08_panic_overlap(an):
    """The overlap clause in rounds that end in a panic: whatever else happens while a thread unwinds, it must not start dropping
    values (its untimed work) while another thread still sits between its start and end timestamp. Judged directly on sequence
    numbers: a drop event on thread X that lies inside a *completed* timed section of another thread Y."""
    out = []
    run, cfg = an.run, an.cfg
    if cfg.eff_T < 2:
        return out, {}
    drops = []
    values_form = cfg.entry in VALUE_ENTRIES
    for tv in an.threads.values():
        depth = 0
        cur_input = None
        excused = None
        for ev in tv.events:
            if ev.kind == E.CALL_BEGIN:
                depth += 1
                cur_input = ev.a
            elif ev.kind == E.CALL_END:
                depth -= 1
            elif ev.kind == E.PANIC_INJECTED:
                if depth > 0 and values_form:
                    excused = cur_input    # the input the panicking call owns is dropped by that call's own unwinding
                depth = 0                  # the call that panicked never logs its end
            elif ev.kind == E.DROP_IN and excused is not None and ev.a == excused:
                excused = None
            elif ev.kind == E.DROP_OUT or (ev.kind == E.DROP_IN and depth <= 0):
                drops.append(ev)
    windows = [(tv.tid, w) for tv in an.threads.values() for w in tv.windows if w.e is not None and w.calls > 0]
    judged = 0
    for d in drops:
        for tid, w in windows:
            if tid == d.tid:
                continue
            judged += 1
            if w.s.seq < d.seq < w.e.seq:
                out.append(V("C08", "drop_inside_peer_timed_section",
                             "thread %d dropped a value while thread %d was between its start and end timestamp" % (d.tid, tid), [w.s, d, w.e]))
                return out, {"panic_round_drop_window_pairs": judged}
    return out, {"panic_round_drop_window_pairs": judged}


def check_c02_chain(an):
    """C02 seen from the report: the duration recorded for a sample is the distance between the start and end reading that
    enclose its calls and nothing else (a re-read end timestamp, or one taken after the drops, shows up here)."""
    vs, info = check_c05_chain(an)
    out = [V("C02", "recorded_duration_not_its_window", v.msg, v.witness) for v in vs if v.code == "recorded_vs_clock"]
    stray = sum(len(tv.stray_ends) for tv in an.threads.values())
    if stray and out:
        out.append(V("C02", "end_timestamp_reread", "%d end readings were taken outside any timed section and a recorded duration does not match its window" % stray,
                     [tv.stray_ends[0] for tv in an.threads.values() if tv.stray_ends][:3]))
    return out, {"chain_samples_c02": info.get("chain_samples", 0), "stray_end_reads": stray}


def check_c11_chain(an):
    """C11 end to end: a recorded sample is floor(ticks * 10^12 / f) of the window the log shows."""
    vs, info = check_c05_chain(an)
    return [V("C11", "recorded_sample_conversion", v.msg, v.witness) for v in vs if v.code == "recorded_vs_clock"], {"e2e_samples": info.get("chain_samples", 0)}


def check_c11_budget(an):
    """C11 where a Duration option meets the clock: a time limit of D ns is exactly D * 1000 ps, so a run whose elapsed time stands
    1 ns below (or on) the limit stops in the round the documented rule names (the rule itself is C04's; here only configurations
    built to expose the conversion are judged)."""
    vs, info = check_c04(an)
    return [V("C11", "duration_option_conversion", v.msg, v.witness) for v in vs if v.code in ("stopped_early", "ran_too_long")], {"budget_runs": 1}


ALL_CHECKS = {
    "C11": [check_c11_chain],
    "C01": [check_c01],
    "C02": [check_c02, check_c02_chain],
    "C03": [check_c03],
    "C04": [check_c04],
    "C05": [check_c05, check_c05_chain],
    "C08": [check_c08_order, check_c02],
    "C19": [check_c19],
}


def check_c02_for_c08(an):
    """C08's 'each thread's sample reports only that thread's own allocations' (distinct per-thread scripts)."""
    vs, info = check_c02(an)
    out = []
    for v in vs:
        if v.code == "alloc_figures_mismatch":
            out.append(V("C08", "own_allocations_only", v.msg, v.witness))
    return out, {"samples_compared_c08": info.get("samples_compared", 0)}
