"""Flavour builds of the harness crate against the repository's working tree.

Every build goes through cargo, whose own dependency tracking rebuilds divan
whenever a file under the repository changed. Target directories live under
/verif/.build/<flavour> (git-ignored).
"""
import fcntl
import hashlib
import os
import shutil
import subprocess
import sys
import time

VERIF = os.path.dirname(os.path.dirname(os.path.abspath(__file__)))
REPO = os.path.abspath(os.environ.get("VERIF_REPO", "/repo"))
BUILD = os.environ.get("VERIF_BUILD", os.path.join(VERIF, ".build"))
TARGET = "x86_64-unknown-linux-gnu"


class BuildError(Exception):
    pass


def _suffix():
    return "" if REPO == "/repo" else "-" + hashlib.sha1(REPO.encode()).hexdigest()[:10]


def harness_dir():
    """The harness crate; a rewritten copy when VERIF_REPO points elsewhere."""
    src = os.path.join(VERIF, "harness")
    if REPO == "/repo":
        return src
    dst = os.path.join(BUILD, "harness" + _suffix())
    os.makedirs(dst, exist_ok=True)
    for root, dirs, files in os.walk(src):
        dirs[:] = [d for d in dirs if d not in ("target",)]
        rel = os.path.relpath(root, src)
        os.makedirs(os.path.join(dst, rel), exist_ok=True)
        for f in files:
            s = os.path.join(root, f)
            d = os.path.join(dst, rel, f)
            data = open(s, "rb").read()
            if f == "Cargo.toml":
                data = data.replace(b'path = "/repo"', ('path = "%s"' % REPO).encode())
            if not os.path.exists(d) or open(d, "rb").read() != data:
                open(d, "wb").write(data)
    return dst


def target_dir(flavour):
    return os.path.join(BUILD, flavour + _suffix())


def _env(flavour):
    env = dict(os.environ)
    env["CARGO_NET_OFFLINE"] = "true"
    env["CARGO_TARGET_DIR"] = target_dir(flavour)
    env.pop("RUSTFLAGS", None)
    if flavour == "asan":
        env["RUSTFLAGS"] = "-Zsanitizer=address -Cforce-frame-pointers=yes"
    elif flavour == "tsan":
        env["RUSTFLAGS"] = "-Zsanitizer=thread"
    return env


def _cmd(flavour, bins):
    b = []
    for x in bins:
        b += ["--bin", x]
    if flavour == "native":
        return ["cargo", "build", "--offline"] + b
    if flavour == "release":
        return ["cargo", "build", "--offline", "--release"] + b
    if flavour == "asan":
        return ["cargo", "+nightly", "build", "--offline", "--target", TARGET] + b
    if flavour == "tsan":
        return ["cargo", "+nightly", "build", "--offline", "-Zbuild-std", "--target", TARGET] + b
    raise BuildError("unknown flavour " + flavour)


def bin_path(flavour, name):
    t = target_dir(flavour)
    if flavour == "native":
        return os.path.join(t, "debug", name)
    if flavour == "release":
        return os.path.join(t, "release", name)
    return os.path.join(t, TARGET, "debug", name)


def build(flavour, bins, quiet=True):
    """Builds the given harness binaries; returns {name: path}."""
    os.makedirs(BUILD, exist_ok=True)
    hdir = harness_dir()
    lock = open(os.path.join(BUILD, flavour + _suffix() + ".lock"), "w")
    fcntl.flock(lock, fcntl.LOCK_EX)
    try:
        t0 = time.time()
        p = subprocess.run(_cmd(flavour, bins), cwd=hdir, env=_env(flavour), stdout=subprocess.PIPE, stderr=subprocess.STDOUT, text=True)
        if p.returncode != 0:
            sys.stderr.write(p.stdout[-6000:])
            raise BuildError("cargo build failed for flavour %s" % flavour)
        if not quiet:
            sys.stderr.write("[build %s %s: %.1fs]\n" % (flavour, ",".join(bins), time.time() - t0))
    finally:
        fcntl.flock(lock, fcntl.LOCK_UN)
        lock.close()
    return {b: bin_path(flavour, b) for b in bins}


def miri_cmd(binname, args):
    return ["cargo", "+nightly", "miri", "run", "--offline", "--bin", binname, "--"] + list(args)


def miri_env(flags):
    env = dict(os.environ)
    env["CARGO_NET_OFFLINE"] = "true"
    env["CARGO_TARGET_DIR"] = target_dir("miri")
    env.pop("RUSTFLAGS", None)
    env["MIRIFLAGS"] = flags
    return env


def miri_prebuild(binname):
    """Compiles the Miri flavour once (running with --help-like no-op arguments)."""
    hdir = harness_dir()
    lock = open(os.path.join(BUILD, "miri" + _suffix() + ".lock"), "w")
    os.makedirs(BUILD, exist_ok=True)
    fcntl.flock(lock, fcntl.LOCK_EX)
    try:
        p = subprocess.run(["cargo", "+nightly", "miri", "run", "--offline", "--bin", binname, "--", "--noop"], cwd=hdir,
                           env=miri_env(""), stdout=subprocess.PIPE, stderr=subprocess.STDOUT, text=True)
        if p.returncode != 0:
            sys.stderr.write(p.stdout[-6000:])
            raise BuildError("miri prebuild failed for " + binname)
    finally:
        fcntl.flock(lock, fcntl.LOCK_UN)
        lock.close()


def clean_scratch():
    if REPO != "/repo":
        for fl in ("native", "release", "asan", "tsan", "miri", "harness", "gen-target", "gen-target-cgu1-O3", "gen-target-cgu16-O0"):
            shutil.rmtree(os.path.join(BUILD, fl + _suffix()), ignore_errors=True)
        gen = os.path.join(BUILD, "gen")
        if os.path.isdir(gen):
            for d in os.listdir(gen):
                if d.endswith(_suffix()):
                    shutil.rmtree(os.path.join(gen, d), ignore_errors=True)
