"""Configuration generator + runner for treedrv."""
import os
import random
import subprocess
import tempfile

from . import build, tree_parse, treegen as TG
from .treemodel import Intent

TMP = os.path.join(build.BUILD, "tmp")
SORT_NAMES = ["kind", "name", "location"]
COUNTER_FLAGS = {0: "bytes-count", 1: "chars-count", 2: "cycles-count", 3: "items-count"}
COUNTER_ENV = {0: "DIVAN_BYTES_COUNT", 1: "DIVAN_CHARS_COUNT", 2: "DIVAN_CYCLES_COUNT", 3: "DIVAN_ITEMS_COUNT"}
COUNTER_BUILDER = {0: "bytes_count", 1: "chars_count", 2: "cycles_count", 3: "items_count"}


class Config:
    def __init__(self):
        self.cli = []
        self.env = {}
        self.builder = []
        self.run_mode = "main"
        self.use_args = True
        self.intent = Intent()

    def describe(self):
        return {"cli": self.cli, "env": self.env, "builder": [" ".join(b) for b in self.builder], "run": self.run_mode, "args": self.use_args}


def rx_escape(s):
    out = []
    for ch in s:
        if ch in ".+*?()|[]{}^$\\":
            out.append("\\" + ch)
        else:
            out.append(ch)
    return "".join(out)


def rand_filter(rng, paths, exact):
    for _ in range(20):
        f = rand_filter_(rng, paths, exact)
        if f and not f.startswith("-"):      # a leading dash would be taken for a flag by the CLI parser
            return f
    return "treedrv"


def rand_filter_(rng, paths, exact):
    """A filter pattern aimed at the actual paths (so that it matches something, an inner node only, or nothing)."""
    if not paths:
        return "zzz"
    p = rng.choice(paths)
    comps = p.split("::")
    k = rng.randrange(11)
    if exact:
        k %= 8
        if k < 4:
            return p
        if k < 6:
            return "::".join(comps[:rng.randrange(1, len(comps) + 1)])      # an inner node's path (matches no case unless complete)
        return p + rng.choice(["x", "::", " "])
    if k == 0:
        return rx_escape(p)
    if k == 1:
        return "^" + rx_escape(p) + "$"
    if k == 2:
        return rx_escape(rng.choice(comps))
    if k == 3:
        c = rng.choice([x for x in comps if x] or ["treedrv"])
        i = rng.randrange(len(c))
        return rx_escape(c[i:i + rng.randrange(1, 4)])
    if k == 4:
        a, b = rng.choice(comps), rng.choice(rng.choice(paths).split("::"))
        return "(" + rx_escape(a) + "|" + rx_escape(b) + ")"
    if k == 5:
        return rx_escape(comps[0]) + "::.*" + rx_escape(comps[-1][:2])
    if k == 6:
        return rng.choice(["[0-9]+$", "^treedrv::[a-z]", "::[a-z]+[0-9]", "a.c", "x?y", "1+", "no_such_thing_[0-9]"])
    if k >= 8:
        # state that is not delimited by operator precedence: every filter is a pattern of its own, so an inline flag or a
        # verbose-mode comment in one filter says nothing about the filters given after it
        c = rng.choice(comps)
        if c.isascii() and c.strip() and not any(ch in c for ch in " #\t"):
            if k == 8:
                return "(?i)" + rx_escape(c.upper() if rng.random() < 0.7 else c)
            if k == 9:
                return "(?x) " + rx_escape(c) + "  # " + rng.choice(["note", "the fast one", "a|b"])
            # a pattern in the wrong case: selects nothing unless some other filter's flag leaks into it
            return rx_escape(c.upper()) if c.upper() != c else rx_escape(c.lower())
    return rx_escape("::".join(comps[:rng.randrange(1, len(comps) + 1)])) + "$"


def gen_config(rng, sp, profile):
    """profile keys: actions, p_filters, p_sort, p_ignore_flag, p_runner_opts, time_opts."""
    cfg = Config()
    it = cfg.intent
    roots = TG.build_tree(sp)
    paths = [c.path() for c in TG.cases(roots)]
    action = rng.choice(profile.get("actions", ["test"]))
    it.action = action
    cli = []
    env = {}
    builder = []
    if action == "bench":
        cli.append("--bench")
        if getattr(sp, "clock_os", False):
            # the OS timer is the default: leave it unnamed, or name it by flag or variable
            r = rng.random()
            if r < 0.3:
                cli += ["--timer", "os"]
            elif r < 0.5:
                env["DIVAN_TIMER"] = "os"
        else:
            cli += ["--timer", "tsc"] if rng.random() < 0.7 else []
            if "--timer" not in cli:
                env["DIVAN_TIMER"] = "tsc"
    elif action == "test":
        if rng.random() < 0.5:
            cli.append("--test")
    elif action == "list":
        cli.append("--list")
    elif action == "terse":
        cli += ["--list", "--format", "terse"]
        env["NEXTEST"] = "1"
    elif action == "list_benches":
        cfg.run_mode = "list"
        it.action = "list"
    if action in ("bench", "test") and rng.random() < profile.get("p_explicit_entry", 0.12):
        # the explicit entry points decide the action, whatever the runner was configured for: run_benches() on a runner whose
        # command line says --test (or nothing, as under `cargo test --benches`), test_benches() on one that says --bench
        if action == "bench":
            cfg.run_mode = "bench"
            cli[:] = [c for c in cli if c != "--bench"] + (["--test"] if rng.random() < 0.5 else [])
        else:
            cfg.run_mode = "test"
            cli[:] = [c for c in cli if c != "--test"] + ["--bench"]
    if action != "bench" and not getattr(sp, "clock_os", False) and rng.random() < profile.get("p_timer_flag", 0.0):
        # the timer choice must not change what a test run or a listing selects (coarse virtual counters, tiny budgets)
        if rng.random() < 0.6:
            cli += ["--timer", "tsc"]
        else:
            env["DIVAN_TIMER"] = "tsc"
    cli += ["--color", "never"] if rng.random() < 0.3 else []
    # filters
    if rng.random() < profile.get("p_filters", 0.0):
        exact = rng.random() < 0.35
        npos = rng.choice([0, 0, 1, 1, 2, 3, 4])
        nskip = rng.choice([0, 0, 1, 1, 2, 4])
        pos = [rand_filter(rng, paths, exact) for _ in range(npos)]
        skip = [rand_filter(rng, paths, exact) for _ in range(nskip)]
        if rng.random() < 0.08:
            # an empty filter text (`cargo bench -- ""`): as a regex it is found in every path, as an exact name it equals none
            (pos if rng.random() < 0.7 else skip).insert(0, "")
        bskip = []
        if rng.random() < 0.25:
            for _ in range(rng.randrange(1, 3)):
                rx = rng.random() < 0.5
                pat = rand_filter(rng, paths, not rx)
                bskip.append((pat, rx))
                builder.append(["skip_regex" if rx else "skip_exact", TG.hx(pat)])
        it.filters = TG.Filters(pos, skip, exact, bskip)
        cli += pos
        for s in skip:
            cli += ["--skip", s]
        if exact:
            cli.append("--exact")
    elif rng.random() < profile.get("p_builder_skip_alone", 0.1):
        # filters set by the program itself (Divan::skip_exact / skip_regex before the command line is read) and none on the
        # command line: they are in force all the same
        bskip = []
        for _ in range(rng.randrange(1, 3)):
            rx = rng.random() < 0.5
            pat = rand_filter(rng, paths, not rx)
            bskip.append((pat, rx))
            builder.append(["skip_regex" if rx else "skip_exact", TG.hx(pat)])
        it.filters = TG.Filters([], [], False, bskip)
    # ignore flags
    r = rng.random()
    if r < profile.get("p_ignore_flag", 0.3):
        which = rng.randrange(4)
        if which == 0:
            cli.append("--ignored")
            it.ignore_mode = "only"
        elif which == 1:
            cli.append("--include-ignored")
            it.ignore_mode = "include"
        elif which == 2:
            builder.append(["run_ignored"])
            it.ignore_mode = "include"
        else:
            builder.append(["run_only_ignored"])
            it.ignore_mode = "only"
    # sorting
    if rng.random() < profile.get("p_sort", 0.0):
        attr = rng.randrange(3)
        rev = rng.random() < 0.5
        it.sort_attr, it.sort_rev = attr, rev
        ch = rng.randrange(3)
        if ch == 0:
            cli += ["--sortr" if rev else "--sort", SORT_NAMES[attr]]
        elif ch == 1:
            env["DIVAN_SORTR" if rev else "DIVAN_SORT"] = SORT_NAMES[attr]
        else:
            # a lower-priority setting that must be overridden
            if rev:
                cli += ["--sort", rng.choice(SORT_NAMES), "--sortr", SORT_NAMES[attr]]
            else:
                env["DIVAN_SORT"] = rng.choice(SORT_NAMES)
                cli += ["--sort", SORT_NAMES[attr]]
    # runner-level options through the three channels
    ro = {}
    # sometimes the runner sets exactly one option and nothing else (also an explicit `false`): "is anything set at run time?"
    # short cuts must not mistake that for "nothing set"
    single = None
    if getattr(sp, "wide_counts", False) and action in ("bench", "test") and rng.random() < 0.7:
        single = "ss_wide"
    elif getattr(sp, "budget_scenario", False) and action == "bench" and rng.random() < 0.6:
        single = "sk"
    elif getattr(sp, "minmax_runner_xt", None) is not None and action == "bench" and rng.random() < 0.8:
        single = "xt"
    elif rng.random() < profile.get("p_single_runner_opt", 0.0):
        single = rng.choice(["sc", "ss", "th", "c", "xt", "mt", "sk", "sk", "sk"] if profile.get("time_opts") else ["sc", "ss", "th", "c"])

    def want(field, p):
        return (single == field) if single else (rng.random() < p)

    if single or rng.random() < profile.get("p_runner_opts", 0.0):
        def put(field, value, flag, envname, bop, render=str, only=None):
            ch = only or rng.choice(["cli", "env", "builder", "cli+env", "cli+builder", "env+builder"])
            it.how[field] = ch
            other = render(rng.choice(profile.get("decoys", {}).get(field, [value])))
            v = render(value)
            if ch == "cli":
                cli.extend([flag, v])
            elif ch == "env":
                env[envname] = v
            elif ch == "builder":
                builder.append([bop, v])
            elif ch == "cli+env":
                cli.extend([flag, v])
                env[envname] = other
            elif ch == "cli+builder":
                cli.extend([flag, v])
                builder.append([bop, other])
            else:
                env[envname] = v
                builder.append([bop, other])
            ro[field] = value
        if want("sc", 0.5):
            put("sc", rng.choice([0, 1, 2, 3, 5, 8]), "--sample-count", "DIVAN_SAMPLE_COUNT", "sample_count")
        if single == "ss_wide":
            put("ss", rng.choice([65536, 4096]), "--sample-size", "DIVAN_SAMPLE_SIZE", "sample_size", only=rng.choice(["cli", "env", "builder"]))
        if want("ss", 0.5):
            put("ss", rng.choice([1, 2, 3, 4]), "--sample-size", "DIVAN_SAMPLE_SIZE", "sample_size")
        if want("th", 0.4):
            P = TG.PARALLELISM
            th = rng.choice([[1], [2], [1, 2], [0], [3, 1, 3], [2, 4], [0, P], [P, 2, 0], [0, 0, 1]])
            if rng.random() < 0.12:
                # an empty list is a set option too (it resolves to one thread and masks the levels below); only the builder can say it
                put("th", [], "--threads", "DIVAN_THREADS", "threads", render=lambda v: ",".join(map(str, v)), only="builder")
            else:
                put("th", th, "--threads", "DIVAN_THREADS", "threads", render=lambda v: ",".join(map(str, v)))
        only_k = rng.randrange(4) if single == "c" else None
        for k in range(4):
            if (k == only_k) if single else (rng.random() < 0.2):
                put("c%d" % k, rng.choice([0, 1, 9, 500, 65536]), "--" + COUNTER_FLAGS[k], COUNTER_ENV[k], COUNTER_BUILDER[k])
        if profile.get("time_opts") and ((single in ("xt", "mt", "sk")) if single else (rng.random() < 0.5)):
            which = {"xt": 0, "mt": 1, "sk": 2}[single] if single else rng.randrange(3)
            if which == 0:
                ns = rng.choice([0, 200, 1000, 4000])
                if single == "xt" and getattr(sp, "minmax_runner_xt", None) is not None:
                    ns = sp.minmax_runner_xt
                ch = rng.choice(["cli", "env", "builder"])
                ro["xt"] = ns
                it.how["xt"] = ch
                if ch == "builder":
                    builder.append(["max_time", str(ns)])
                elif ch == "cli":
                    cli += ["--max-time", "%.9f" % (ns / 1e9)]
                else:
                    env["DIVAN_MAX_TIME"] = "%.9f" % (ns / 1e9)
            elif which == 1:
                ns = rng.choice([0, 300, 2000])
                ch = rng.choice(["cli", "env", "builder"])
                ro["mt"] = ns
                it.how["mt"] = ch
                if ch == "builder":
                    builder.append(["min_time", str(ns)])
                elif ch == "cli":
                    cli += ["--min-time", "%.9f" % (ns / 1e9)]
                else:
                    env["DIVAN_MIN_TIME"] = "%.9f" % (ns / 1e9)
            else:
                v = rng.choice([0, 1]) if not single else rng.choice([0, 0, 1])
                ch = rng.choice(["cli", "env", "builder", "cli-bare"] if not single else ["cli", "env", "builder"])
                if ch == "cli-bare":
                    v = 1
                    cli += ["--skip-ext-time"]
                elif ch == "cli":
                    cli += ["--skip-ext-time", "true" if v else "false"]
                elif ch == "env":
                    env["DIVAN_SKIP_EXT_TIME"] = "true" if v else "false"
                else:
                    builder.append(["skip_ext_time", str(v)])
                ro["sk"] = v
                it.how["sk"] = ch
    if action == "bench" and rng.random() < 0.3:
        fmt = rng.choice(["binary", "decimal"])
        it.binary = fmt == "binary"
        ch = rng.randrange(5)
        other = "decimal" if fmt == "binary" else "binary"
        if ch == 3:
            # flag and variable both present: the command line wins (as for every other option)
            cli += ["--bytes-format", fmt] if rng.random() < 0.5 else ["--bytes-format=" + fmt]
            env["DIVAN_BYTES_FORMAT"] = other
        elif ch == 4:
            # either of them over an earlier builder call
            builder.append(["bytes_format", other])
            if rng.random() < 0.5:
                cli += ["--bytes-format", fmt]
            else:
                env["DIVAN_BYTES_FORMAT"] = fmt
        elif ch == 0:
            cli += ["--bytes-format", fmt]
        elif ch == 1:
            env["DIVAN_BYTES_FORMAT"] = fmt
        else:
            builder.append(["bytes_format", fmt])
    it.runner_opts = ro
    cfg.cli, cfg.env, cfg.builder = cli, env, builder
    return cfg


class RunResult:
    def __init__(self):
        self.rc = None
        self.stdout = ""
        self.stderr = ""
        self.roots = None
        self.log = []
        self.status = None
        self.parse_error = None
        self.timed_out = False


def run(exe, sp, cfg, timeout=120, env_extra=None):
    os.makedirs(TMP, exist_ok=True)
    res = RunResult()
    with tempfile.NamedTemporaryFile("w", suffix=".spec", dir=TMP, delete=False) as f:
        f.write(sp.text(cfg.builder, cfg.run_mode, cfg.use_args))
        path = f.name
    env = {k: v for k, v in os.environ.items() if not k.startswith("DIVAN_") and k not in ("NEXTEST", "NEXTEST_RUN_ID")}
    env.update(cfg.env)
    env["VERIF_SPEC"] = path
    env.update(env_extra or {})
    try:
        prefix = ["taskset", "-c", getattr(cfg, "affinity")] if getattr(cfg, "affinity", None) else []
        p = subprocess.run(prefix + [exe] + cfg.cli, stdout=subprocess.PIPE, stderr=subprocess.PIPE, env=env, timeout=timeout)
        res.rc = p.returncode
        res.stdout = p.stdout.decode("utf-8", "replace")
        res.stderr = p.stderr.decode("utf-8", "replace")
    except subprocess.TimeoutExpired as e:
        res.timed_out = True
        res.stdout = (e.stdout or b"").decode("utf-8", "replace")
        res.stderr = (e.stderr or b"").decode("utf-8", "replace")
    finally:
        try:
            os.unlink(path)
        except OSError:
            pass
    res.spec_text = sp.text(cfg.builder, cfg.run_mode, cfg.use_args)
    if res.rc == 0 and not res.timed_out and cfg.intent.action != "terse":
        try:
            res.roots, res.log, res.status = tree_parse.parse_output(res.stdout)
        except tree_parse.ParseError as e:
            res.parse_error = str(e)
    elif res.rc == 0:
        body, _, tail = res.stdout.partition(tree_parse.MARK_LOG)
        res.terse = [l for l in body.split("\n") if l.strip()]
        log = [l for l in tail.split("\n") if l and l != tree_parse.MARK_END]
        res.status = log[0] if log else None
        res.log = log[1:]
    return res
