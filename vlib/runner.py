"""Runs harness drivers over shards of configuration lines, in parallel, under a watchdog."""
import os
import subprocess
import tempfile
import time
from concurrent.futures import ThreadPoolExecutor

from . import evlog

NCPU = os.cpu_count() or 4


class ShardResult:
    def __init__(self):
        self.runs = []
        self.done = False
        self.returncode = None
        self.timed_out = False
        self.stderr = ""
        self.stdout_tail = ""
        self.lines = []
        self.wall = 0.0

    @property
    def conclusive(self):
        return self.done and not self.timed_out and self.returncode == 0


def run_shard(binpath, lines, timeout, env=None, extra_args=(), wrapper=()):
    res = ShardResult()
    res.lines = lines
    t0 = time.time()
    with tempfile.NamedTemporaryFile("w", suffix=".cfg", dir=os.environ.get("VERIF_TMP", None), delete=False) as f:
        f.write("\n".join(lines) + "\n")
        path = f.name
    try:
        p = subprocess.run(list(wrapper) + [binpath, "--file", path] + list(extra_args), stdout=subprocess.PIPE, stderr=subprocess.PIPE,
                           timeout=timeout, env=env)
        res.returncode = p.returncode
        out = p.stdout.decode("utf-8", "replace")
        err = p.stderr.decode("utf-8", "replace")
        res.stderr = err if len(err) <= 16000 else err[:10000] + "\n...\n" + err[-6000:]
    except subprocess.TimeoutExpired as e:
        res.timed_out = True
        out = (e.stdout or b"").decode("utf-8", "replace")
        res.stderr = (e.stderr or b"").decode("utf-8", "replace")[-8000:]
    finally:
        os.unlink(path)
    res.runs, res.done = evlog.parse_runs(out)
    res.stdout_tail = out[-2000:]
    res.wall = time.time() - t0
    return res


def shard(lines, n):
    n = max(1, min(n, len(lines)))
    return [lines[i::n] for i in range(n)]


def run_parallel(binpath, lines, nshards=None, timeout=300, env=None, jobs=None, extra_args=(), wrapper=()):
    shards = shard(lines, nshards or NCPU)
    with ThreadPoolExecutor(max_workers=jobs or NCPU) as ex:
        return list(ex.map(lambda ls: run_shard(binpath, ls, timeout, env, extra_args, wrapper), shards))
