"""C06 / C07: the broadcast thread pool."""
import os
import re
from concurrent.futures import ThreadPoolExecutor

from . import build, deadlock, evlog, poolgen, runner, sanit
from . import pool_oracle as PO

NCPU = os.cpu_count() or 4


def run_native_watched(prop, lines, out, flavour="native", env_extra=None, timeout=300, engine=None):
    """Runs shards of histories, each process under the quiescent-deadlock detector."""
    bins = build.build(flavour, ["pooldrv"])
    exe = bins["pooldrv"]
    # fault-injection histories (thread creation made to fail) each get a fresh process: a process that has already seen
    # worker threads come and go keeps their stacks cached, and creating a thread then needs no new mapping
    special = [l for l in lines if "spawnfail=" in l or "wbomb=" in l]
    shards = runner.shard([l for l in lines if l not in special], NCPU) + [[l] for l in special]
    env = dict(os.environ)
    env.update(env_extra or {})
    tmpdir = os.path.join(build.BUILD, "tmp")
    os.makedirs(tmpdir, exist_ok=True)

    def one(i_ls):
        i, ls = i_ls
        path = os.path.join(tmpdir, "pool_%d_%d.cfg" % (os.getpid(), i))
        with open(path, "w") as f:
            f.write("\n".join(ls) + "\n")
        try:
            res = deadlock.watch([exe, "--file", path], timeout=timeout, env=env)
        finally:
            os.unlink(path)
        return ls, res

    with ThreadPoolExecutor(max_workers=NCPU) as ex:
        results = list(ex.map(one, list(enumerate(shards))))
    agg = {"broadcasts": 0, "task_calls": 0, "workers": 0, "panicking_calls": 0, "histories": 0, "unpublished_slots": 0}
    sigset = {}
    eng = engine or flavour
    for ls, res in results:
        runs, done = evlog.parse_runs(res.stdout)
        complete = [r for r in runs if r.complete]
        if res.verdict == "deadlock":
            culprit = ls[len(complete)] if len(complete) < len(ls) else ls[-1]
            if prop == "C07":
                out.violation("C07:deadlock", "history deadlocks: every thread of the process in an untimed futex wait (%d threads)" % res.nthreads,
                              {"engine": eng + "+deadlock-detector", "bin": "pooldrv", "cfg": culprit, "stacks": [s[:300] for s in res.stacks[:80]]})
            else:
                out.inconclusive_shard("history deadlocked (C07's verdict): %s" % culprit)
        elif res.verdict == "watchdog":
            out.inconclusive_shard("wall-clock watchdog without quiescence after %d of %d histories" % (len(complete), len(ls)))
        elif res.returncode == -6 and len(ls) == 1 and "wbomb=" in ls[0] and not complete and "WBOMB b=" in res.stderr:
            # the pool could not get rid of a worker's panic payload and ended the process: divan's documented choice (an abort
            # guard on every worker), and the only outcome other than carrying on with a whole pool
            agg["aborted_by_design"] = agg.get("aborted_by_design", 0) + 1
            agg["histories"] += 1
            out.evaluations += 1
        elif res.returncode not in (0, 3):
            text = res.stderr
            if "Sanitizer" in text:
                m = re.search(r"(ERROR: AddressSanitizer: [^\n]*|ERROR: LeakSanitizer: [^\n]*|WARNING: ThreadSanitizer: [^\n]*)", text)
                head = m.group(1) if m else "sanitizer report"
                short = re.sub(r"0x[0-9a-f]+", "ADDR", head)
                short = re.sub(r"\(pid=\d+\)", "", short)
                culprit = ls[len(complete)] if len(complete) < len(ls) else ls[-1]
                which = "C06"
                if prop == which:
                    out.violation("%s:%s:%s:%s" % (which, eng, short[:60].strip(), sanit.first_repo_frame(text)), head,
                                  {"engine": eng, "bin": "pooldrv", "cfg": culprit, "report": text[-4000:]})
            else:
                culprit = ls[len(complete)] if len(complete) < len(ls) else ls[-1]
                sig = "crash:rc=%s" % res.returncode
                if prop == "C06":
                    out.violation("C06:" + sig, "driver crashed (rc=%s) in history: %s" % (res.returncode, res.stderr[-300:]),
                                  {"engine": eng, "bin": "pooldrv", "cfg": culprit, "stderr": res.stderr[-2000:]})
                else:
                    # a history that ends in a crash or a foreign panic did not "run to completion" either
                    out.violation("C07:history_aborted:rc=%s" % res.returncode, "the process died (rc=%s) in the middle of a history of broadcasts: %s" % (
                        res.returncode, res.stderr[-300:]), {"engine": eng, "bin": "pooldrv", "cfg": culprit, "stderr": res.stderr[-2000:]})
        for run in complete:
            out.evaluations += 1
            vs, stats, sigs = PO.check_history(run)
            agg["histories"] += 1
            for k, v in stats.items():
                agg[k] = agg.get(k, 0) + v
            for s in sigs:
                sigset[s] = sigset.get(s, 0) + 1
            hist = run.cfg.get("hist", "")
            if stats["broadcasts"] > 0:
                out.distinct.add((hist, run.cfg.get("pe"), bool(run.cfg.get("panics")), run.cfg.get("dmode"), run.cfg.get("fpint")))
            for v in vs:
                if v.prop != prop:
                    continue
                out.violation(v.sig(), v.msg, {"engine": eng, "bin": "pooldrv", "cfg": run.cfg_line, "violation": v.to_json()})
            if len(out.samples) < 5:
                out.add_sample({"history": run.cfg_line, "broadcasts": stats["broadcasts"], "task_calls": stats["task_calls"],
                                "workers": stats["workers"], "signatures": [list(s) for s in sorted(set(sigs))][:6]})
    return agg, sigset


def miri_histories(prop, tier, seed, out):
    """Small histories under the interpreter: exact deadlock detection, data races under weak memory,
    use of the dead task block, threads alive at exit. Judged by Miri + the driver's online monitor."""
    nh = 16 if tier == "quick" else 64
    nseeds = 16 if tier == "quick" else 64
    lines = poolgen.gen(tier, seed + 31, count=nh, maxn=3, maxlen=4, miri=True)
    lines = [l + " dump=0 fplog=0" for l in lines]
    rates = ["0.01", "0.1", "0.5"]
    total = {"miri_processes": 0, "miri_clean": 0, "miri_seconds": 0.0}
    for i, rate in enumerate(rates):
        part = lines[i::len(rates)]
        base = (seed * 1000 + i * 100) % 100000
        flags = "-Zmiri-many-seeds=%d..%d -Zmiri-preemption-rate=%s" % (base, base + nseeds, rate)
        stats, _ = sanit.miri_lines(prop, "pooldrv", part, out, flags=flags, timeout=1800, jobs=4, ignore_leaks_if=lambda l: "panics=" in l,
                                    sig_prefix=prop)
        for k in total:
            total[k] += stats[k]
    total["seeds_per_history"] = nseeds
    total["histories"] = len(lines)
    total["preemption_rates"] = rates
    out.extra["miri"] = total
    return total


def attribute_miri(prop, out):
    """Miri diagnostics are attributed: deadlock / threads alive -> C07, everything else -> C06."""
    keep = []
    for v in out.violations:
        sig = v["signature"]
        if ":miri:" in sig:
            kind = sig.split(":")[2]
            owner = "C07" if kind in ("deadlock", "threads_alive_at_exit") else "C06"
            if owner != prop:
                out.inconclusive_shard("miri reported %s (belongs to %s)" % (kind, owner))
                continue
        keep.append(v)
    out.violations = keep


def check(prop, tier, seed, out):
    lines = poolgen.gen(tier, seed)
    agg, sigset = run_native_watched(prop, lines, out)
    # interleavings are sampled: on a loaded machine top up with more jittered histories until enough distinct ones were seen
    attempt = 0
    while len(sigset) < 5 and attempt < 4 and not out.violations:
        attempt += 1
        more = [l + " fpint=60" for l in poolgen.gen("quick", seed + 1000 * attempt)]
        agg2, sig2 = run_native_watched(prop, more, out)
        for k, v in agg2.items():
            agg[k] = agg.get(k, 0) + v
        for k, v in sig2.items():
            sigset[k] = sigset.get(k, 0) + v
    agg["top_up_rounds"] = attempt
    out.extra["native"] = agg
    out.extra["interleaving_signatures"] = {"distinct": len(sigset), "histogram": {str(k): v for k, v in sorted(sigset.items())},
                                            "legend": "(caller parks [0..3+], last decrement before the caller finished its own call, unpark before the caller's first park)"}
    out.require("broadcasts", agg["broadcasts"], 200)
    out.require("interleaving_signatures", len(sigset), 4)
    # a verdict needs most of the planned histories judged: histories lost to deadlocks (C07's business when the property is
    # C06), crashes or watchdogs make the run undecided, never "held"
    out.require("judged_native_histories", agg.get("histories", 0), int(0.8 * len(lines)))
    # TSan on real threads
    tl = poolgen.gen(tier, seed + 7, count=(48 if tier == "quick" else 1500))
    tl = [l + " fplog=0" for l in tl]
    # the sanitizer runtimes keep a helper thread in timed waits, so quiescence is never reached there: short watchdog
    tagg, _ = run_native_watched(prop, tl, out, flavour="tsan", env_extra=sanit.TSAN_ENV, engine="tsan", timeout=90 if tier == "quick" else 600)
    out.extra["tsan"] = tagg
    if prop == "C06":
        al = poolgen.gen(tier, seed + 9, count=(48 if tier == "quick" else 1500))
        aagg, _ = run_native_watched(prop, al, out, flavour="asan", env_extra=sanit.ASAN_ENV_NOLEAK, engine="asan", timeout=90 if tier == "quick" else 600)
        out.extra["asan"] = aagg
    miri_histories(prop, tier, seed, out)
    attribute_miri(prop, out)
    out.require("miri_clean_processes", out.extra["miri"]["miri_clean"], 4)
    out.rule = ("seeded broadcast histories (growing / shrinking / repeated / zero thread counts, panicking subsets, per-index delays, seeded "
                "yield/spin/sleep at the nine pool failpoints, targeted sleeps between decrement and unpark); distinct = distinct (history, mode, "
                "panics?, delay mode, jitter) tuples with at least one broadcast; Miri: small histories x many seeds x preemption rates")
    out.assumptions += ["native/TSan schedules are sampled, not enumerated; Miri explores one schedule per seed",
                        "deadlock verdict natively = all threads in untimed futex waits over repeated polls; under Miri its own detector"]


def replay(prop, rp, out):
    r = rp["first"]["replay"]
    cfg = r["cfg"]
    eng = r.get("engine", "native")
    if eng == "miri":
        sanit.miri_lines(prop, "pooldrv", [cfg], out, flags=r.get("flags", ""), timeout=1800, jobs=1, ignore_leaks_if=lambda l: "panics=" in l)
        attribute_miri(prop, out)
    else:
        fl = "tsan" if eng.startswith("tsan") else ("asan" if eng.startswith("asan") else "native")
        env = sanit.TSAN_ENV if fl == "tsan" else (sanit.ASAN_ENV_NOLEAK if fl == "asan" else None)
        run_native_watched(prop, [cfg], out, flavour=fl, env_extra=env)
