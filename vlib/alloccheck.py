"""C09 / C10: AllocProfiler transparency and tally exactness."""
import os
import random
import re

from . import build, runner, sanit, evlog
from . import alloc_oracle as AO


def gen_direct(tier, seed, miri=False):
    rng = random.Random(seed * 9173 + 10)
    n = (120 if tier == "quick" else 3000) if not miri else (6 if tier == "quick" else 24)
    out = []
    for i in range(n):
        threads = rng.choice([1, 1, 2, 3, 4, 8]) if not miri else rng.choice([1, 2, 3])
        length = rng.choice([0, 1, 2, 10, 100, 500, 5000 if tier == "thorough" else 1500]) if not miri else rng.choice([5, 20, 40])
        if threads >= 4 and length > 1500:
            length = 1500
        out.append("id=%d threads=%d len=%d seed=%d big=%d clear=%d nullpct=%d spawn=%d" % (
            i, threads, length, rng.randrange(1 << 40), rng.choice([0, 1, 1]), rng.choice([0, 0, 5, 50]), rng.choice([0, 5, 30]), rng.choice([0, 1])))
        if i % 6 == 5:
            # sizes at the very edge of what a Layout may hold (isize::MAX - (align - 1) and neighbours); the tally is cleared
            # before every operation so that no sum leaves the machine word (such sums exist in no real program)
            out[-1] = out[-1].replace(" clear=%s " % out[-1].split(" clear=")[1].split(" ")[0], " clear=1 ") + " edge=1"
    return out


def gen_sandwich(tier, seed, miri=False):
    rng = random.Random(seed * 9187 + 11)
    if miri:
        return ["id=%d threads=%d waves=%d len=%d seed=%d" % (i, rng.choice([2, 3]), 2, rng.choice([5, 15]), rng.randrange(1 << 30)) for i in range(3 if tier == "quick" else 12)]
    n = 8 if tier == "quick" else 100
    # (act: the benchmark runner was used earlier in the process - test_benches / list_benches over one registered benchmark)
    return ["id=%d threads=%d waves=%d len=%d seed=%d%s" % (i, rng.choice([8, 32, 64]), rng.choice([2, 4]), rng.choice([10, 60, 200]), rng.randrange(1 << 30),
                                                            " act=%d" % (1 + i % 3) if i % 2 == 1 else "") for i in range(n)]


def judge(prop, shards, out, fn, engine, binname, agg):
    for sh in shards:
        if binname == "allocdrv" and sh.returncode is not None and sh.returncode < 0 and not sh.timed_out:
            # the mock inner allocator hands out pointers that must never be dereferenced and may return null: a crash of the
            # driver means the profiler touched the memory itself or turned a null result into an abort
            if prop == "C09":
                n_done = len([r for r in sh.runs if r.complete])
                culprit = sh.lines[n_done] if n_done < len(sh.lines) else sh.lines[-1]
                out.violation("C09:profiler_crashed:signal_%d" % -sh.returncode, "driving AllocProfiler<Mock> crashed with signal %d: the wrapper touched the block or aborted on a null result" % -sh.returncode,
                              {"engine": engine, "bin": binname, "cfg": culprit, "stderr": sh.stderr[-1500:]})
            else:
                out.inconclusive_shard("allocdrv crashed with signal %d (C09's verdict)" % -sh.returncode)
            continue
        if binname == "sandwichdrv" and sh.returncode in (-4, -6, -7, -11) and not sh.timed_out:
            # the sandwich driver sends only valid requests for real memory, on std threads and on bare pthreads, some of them from
            # thread-local destructors that run after the allocator stack's own per-thread state is gone; the logging layers neither
            # allocate nor panic. A process that aborts / crashes in that traffic was brought down by the profiler between them.
            if prop == "C09":
                n_done = len([r for r in sh.runs if r.complete])
                culprit = sh.lines[n_done] if n_done < len(sh.lines) else sh.lines[-1]
                where = "thread_teardown" if "thread/local.rs" in sh.stderr or "Thread Local Storage" in sh.stderr else "request"
                out.violation("C09:process_brought_down:%s:signal_%d" % (where, -sh.returncode),
                              "the process died (signal %d) while valid requests were passing through AllocProfiler as the global allocator: %s" % (
                                  -sh.returncode, sh.stderr[-300:].replace("\n", " | ")),
                              {"engine": engine, "bin": binname, "cfg": culprit, "stderr": sh.stderr[-1500:]})
            else:
                out.inconclusive_shard("sandwichdrv died with signal %d (C09's verdict)" % -sh.returncode)
            continue
        if binname == "allocdrv" and sh.returncode == 101 and not sh.timed_out and prop == "C09":
            # a panic raised inside the profiler's own code (its source file named in the panic message) while it was asked to
            # forward a request: the wrapped allocator never saw the call
            m = re.search(r"panicked at (\S*?/src/alloc\.rs:\d+)[:\d]*:?\s*\n?([^\n]*)", sh.stderr)
            if m and build.REPO in os.path.abspath(m.group(1).rsplit(":", 1)[0]):
                n_done = len([r for r in sh.runs if r.complete])
                culprit = sh.lines[n_done] if n_done < len(sh.lines) else sh.lines[-1]
                out.violation("C09:profiler_panicked", "AllocProfiler panicked instead of forwarding a request (%s: %s)" % (m.group(1).replace(build.REPO, "<repo>"), m.group(2)[:120]),
                              {"engine": engine, "bin": binname, "cfg": culprit, "stderr": sh.stderr[-1500:]})
                continue
        if not sh.conclusive:
            out.inconclusive_shard("engine=%s bin=%s shard: done=%s rc=%s timeout=%s stderr=%s" % (engine, binname, sh.done, sh.returncode, sh.timed_out, sh.stderr[-300:].replace("\n", " | ")))
        for run in sh.runs:
            if not run.complete:
                continue
            out.evaluations += 1
            vs, stats = fn(run)
            for k, v in stats.items():
                if isinstance(v, (int, float)):
                    agg[k] = max(agg.get(k, 0), v) if k.startswith("max_") else agg.get(k, 0) + v
            if stats.get("ops", 0) > 0 or stats.get("outer_calls", 0) > 0:
                out.distinct.add((binname, run.cfg_line.split(" ", 1)[1] if " " in run.cfg_line else run.cfg_line))
            for v in vs:
                if v.prop == prop:
                    out.violation(v.sig(), v.msg, {"engine": engine, "bin": binname, "cfg": run.cfg_line, "violation": v.to_json()})
            if len(out.samples) < 6:
                out.add_sample({"bin": binname, "cfg": run.cfg_line, "observed": {k: v for k, v in stats.items()}})


def miri_judge(prop, out, fn, binname, agg):
    def j(runs):
        sh = runner.ShardResult()
        sh.runs, sh.done, sh.returncode = runs, True, 0
        judge(prop, [sh], out, fn, "miri", binname, agg)
    return j


def end_to_end(prop, tier, seed, out, only_lines=None):
    """The profiler while benchmarks run: loopdrv's global allocator is LogOuter<AllocProfiler<LogInner<System>>>, so every
    request made inside and around timed sections (alloc, alloc_zeroed, realloc, dealloc scripts in calls, generators, drops,
    also after a panic in the middle of a sample) passes both logging layers. C09: the online sandwich monitor must stay
    silent. C10: the record stored for a sample must be the thread's operations between its two timestamps."""
    from . import loopgen, loop_oracle as LO
    bins = build.build("native", ["loopdrv"])
    n = 240 if tier == "quick" else 6000
    lines = [l for l in loopgen.gen_c02(tier, seed + 909) if "caops=" in l][:n]
    lines += [l for l in loopgen.gen_c08_panic("quick", seed + 909)][: (40 if tier == "quick" else 400)]
    lines += loopgen.gen_late_alloc(tier, seed + 909, first_id=100000)
    if only_lines is not None:
        lines = only_lines
    shards = runner.run_parallel(bins["loopdrv"], lines, timeout=900)
    st = {"loop_runs": 0, "sandwich_violations": 0, "zeroed_requests_in_samples": 0, "samples_compared": 0, "runs_with_panic": 0}
    for sh in shards:
        if not sh.conclusive:
            out.inconclusive_shard("end-to-end shard of %d loop configs: done=%s rc=%s timeout=%s" % (len(sh.lines), sh.done, sh.returncode, sh.timed_out))
        for run in sh.runs:
            if not run.complete or run.overflow:
                continue
            st["loop_runs"] += 1
            out.evaluations += 1
            if run.status != "ok":
                st["runs_with_panic"] += 1
            an = LO.Analysis(run)
            for tv in an.threads.values():
                for w in tv.windows:
                    st["zeroed_requests_in_samples"] += sum(1 for ev in w.inner if ev.kind == evlog.ALLOC_OP and (ev.a & 0xFF) == 1)
            if prop == "C09":
                if run.sandwich:
                    st["sandwich_violations"] += run.sandwich
                    codes = sorted({ev.a for ev in run.events if ev.kind == evlog.ONLINE_VIOLATION})
                    out.violation("C09:not_transparent_while_benchmarking",
                                  "%d requests did not pass the profiler 1:1 while a benchmark ran (monitor codes %s: 1 inner calls != 1, 2 arguments / method changed, "
                                  "3 result changed, 4 re-entry, 5 inner call without request)" % (run.sandwich, codes), {"engine": "native", "bin": "loopdrv", "cfg": run.cfg_line})
            elif not an.struct_errors:
                vs, info = LO.check_c02(an)
                st["samples_compared"] += info.get("samples_compared", 0)
                for v in vs:
                    if v.code == "alloc_figures_mismatch":
                        out.violation("C10:per_sample_record", "the tally stored for a sample is not the thread's operations between its timestamps: " + v.msg,
                                      {"engine": "native", "bin": "loopdrv", "cfg": run.cfg_line, "violation": v.to_json()})
    out.extra["end_to_end"] = st
    if only_lines is not None:
        return
    out.require("e2e_loop_runs", st["loop_runs"], 100)
    if prop == "C09":
        out.require("e2e_zeroed_requests_in_samples", st["zeroed_requests_in_samples"], 50)
    else:
        out.require("e2e_samples_compared", st["samples_compared"], 100)


def check(prop, tier, seed, out):
    bins = build.build("native", ["allocdrv", "sandwichdrv"])
    agg_d, agg_s = {}, {}
    shards = runner.run_parallel(bins["allocdrv"], gen_direct(tier, seed), timeout=600)
    judge(prop, shards, out, AO.check_direct, "native", "allocdrv", agg_d)
    shards = runner.run_parallel(bins["sandwichdrv"], gen_sandwich(tier, seed), timeout=600, nshards=8)
    judge(prop, shards, out, AO.check_sandwich, "native", "sandwichdrv", agg_s)
    out.extra["direct"] = agg_d
    out.extra["sandwich"] = agg_s
    end_to_end(prop, tier, seed, out)
    out.require("scripted_ops", agg_d.get("ops", 0), 5000)
    if prop == "C09":
        out.require("calls_first_on_thread", agg_s.get("first_on_thread", 0), 50)
        out.require("calls_in_tls_destructor", agg_s.get("in_tls_dtor", 0), 50)
        out.require("null_returns", agg_d.get("null_returns", 0), 20)
    else:
        out.require("threads_compared_real_traffic", agg_s.get("threads_compared", 0), 50)
        out.require("equal_size_reallocs", agg_d.get("eq_reallocs", 0), 10)
        out.require("states_with_negative_live", agg_d.get("negative_live", 0), 10)
        # the same concurrent workload under TSan
        tb = build.build("tsan", ["allocdrv"])
        tl = [l for l in gen_direct(tier, seed + 3) if "threads=1 " not in l][: (24 if tier == "quick" else 400)]
        env = dict(os.environ)
        env.update(sanit.TSAN_ENV)
        tagg = {}
        shards = runner.run_parallel(tb["allocdrv"], tl, timeout=900, env=env)
        for sh in shards:
            if "ThreadSanitizer" in sh.stderr:
                out.violation("C10:tsan:%s" % sanit.first_repo_frame(sh.stderr), "ThreadSanitizer report while several threads drive the profiler",
                              {"engine": "tsan", "bin": "allocdrv", "cfg": sh.lines[0], "report": sh.stderr[-4000:]})
        judge(prop, [s for s in shards if "ThreadSanitizer" not in s.stderr], out, AO.check_direct, "tsan", "allocdrv", tagg)
        out.extra["tsan"] = tagg
    # Miri on both modes (thread-local access in teardown, new_unchecked, raw tally pointer)
    magg = {}
    st1, _ = sanit.miri_lines(prop, "allocdrv", gen_direct(tier, seed + 1, miri=True), out, judge=miri_judge(prop, out, AO.check_direct, "allocdrv", magg), timeout=1200)
    st2, _ = sanit.miri_lines(prop, "sandwichdrv", gen_sandwich(tier, seed + 1, miri=True), out, judge=miri_judge(prop, out, AO.check_sandwich, "sandwichdrv", magg), timeout=1200)
    out.extra["miri"] = {"processes": st1["miri_processes"] + st2["miri_processes"], "clean": st1["miri_clean"] + st2["miri_clean"], "observed": magg}
    out.require("miri_clean_processes", st1["miri_clean"] + st2["miri_clean"], 4)
    out.rule = ("direct mode: seeded request sequences (all four methods, sizes 0..2^40, alignments 1..4096, null / sentinel returns, clears, phantom frees) "
                "through AllocProfiler<Mock> on 1..8 concurrent threads, tally read after every operation; sandwich mode: waves of short-lived threads "
                "allocating during start-up and inside thread-local destructors under LogOuter<AllocProfiler<LogInner<System>>>; distinct = distinct "
                "configurations that performed at least one operation")
    out.assumptions += ["a failed (null) request still counts as an operation performed (the statement does not distinguish)",
                        "an equal-size reallocation adds 0 bytes and is accepted in either the grow or the shrink bucket"]


def replay(prop, rp, out):
    r = rp["first"]["replay"]
    binname = r.get("bin", "allocdrv")
    if binname == "loopdrv":
        # a panic earlier in the same process can matter (state left behind on the thread): replay with the panic plans in front
        from . import loopgen
        end_to_end(prop, "quick", rp.get("seed", 1), out, only_lines=loopgen.gen_c08_panic("quick", rp.get("seed", 1) + 909)[:6] + [r["cfg"]])
        return
    fn = AO.check_direct if binname == "allocdrv" else AO.check_sandwich
    eng = r.get("engine", "native")
    if eng == "miri":
        sanit.miri_lines(prop, binname, [r["cfg"]], out, judge=miri_judge(prop, out, fn, binname, {}))
        return
    bins = build.build("native", [binname])
    shards = runner.run_parallel(bins[binname], [r["cfg"]], nshards=1)
    judge(prop, shards, out, fn, "native", binname, {})
