"""Synthetic benchmark registries for treedrv: generator, spec serialisation and the reference model
of what divan must select, resolve, order, run and print (written from the property statements)."""
import random
import re

from . import models

TYPE_PALETTE = ["i32", "u64", "alloc::string::String", "alloc::vec::Vec<u8>", "&str", "treedrv::nested::Alpha",
                "treedrv::nested::inner::Beta<u8>", "core::option::Option<treedrv::nested::Alpha>", "[u8; 4]",
                "std::collections::hash::map::HashMap<alloc::string::String, u32>",
                "treedrv::nested::inner::Beta<treedrv::nested::Alpha>", "u8", "alloc::boxed::Box<str>", "()",
                # generic parameters that are generic themselves (more than one '<' in the name)
                "alloc::vec::Vec<alloc::vec::Vec<u8>>", "core::option::Option<alloc::vec::Vec<u8>>",
                "core::result::Result<alloc::vec::Vec<u8>, alloc::string::String>",
                "treedrv::nested::inner::Beta<core::option::Option<treedrv::nested::Alpha>>",
                "core::option::Option<alloc::vec::Vec<treedrv::nested::inner::Beta<u8>>>"]
PARALLELISM = 16      # replaced at start-up by what std::thread::available_parallelism() says on this machine (treecheck.init_parallelism)
DEFAULT_SAMPLE_COUNT = 100


def hx(s):
    return s.encode("utf-8").hex() if s else "-"


def type_display(raw):
    """Strip leading module path segments, never going past a generic boundary."""
    name = raw
    while "::" in name:
        prev, nxt = name.split("::", 1)
        if "<" in prev:
            break
        name = nxt
    return name


# ---------------------------------------------------------------------------
# Spec objects
# ---------------------------------------------------------------------------

class Group:
    def __init__(self, modpath, raw, display, file, line, col, opts):
        self.modpath, self.raw, self.display, self.file, self.line, self.col, self.opts = modpath, raw, display, file, line, col, opts

    def spec_line(self):
        return "G %s %s %s %s %d %d %s" % (hx("::".join(self.modpath)), hx(self.raw), hx(self.display), hx(self.file), self.line, self.col, opts_text(self.opts))


class Bench:
    def __init__(self, bid, modpath, raw, display, file, line, col, opts, beh, kind="plain"):
        self.bid, self.modpath, self.raw, self.display = bid, modpath, raw, display
        self.file, self.line, self.col, self.opts, self.beh, self.kind = file, line, col, opts, beh, kind
        self.argtype, self.args = None, []
        self.types, self.constkind, self.consts = [], "i64", []
        self.order = 0   # declaration (registration) order

    def spec_line(self):
        head = "%d %s %s %s %s %d %d %s %s" % (self.bid, hx("::".join(self.modpath)), hx(self.raw), hx(self.display), hx(self.file),
                                              self.line, self.col, opts_text(self.opts), beh_text(self.beh))
        if self.kind == "plain":
            return "P " + head
        if self.kind == "args":
            return "A %s %s %s" % (head, self.argtype, ",".join(hx(a) if a != "" else "-" for a in self.args) if self.args else "-")
        return "X %s %s %s %s" % (head, ",".join(map(str, self.types)) if self.types else "-", self.constkind,
                                  ",".join(hx(c) for c in self.consts) if self.consts else "-")


def opts_text(o):
    if o is None:
        return "-"
    parts = []
    for k in ("sc", "ss", "mt", "xt", "sk", "ig", "c0", "c1", "c2", "c3"):
        if k in o:
            v = o[k]
            parts.append("%s:%d" % (k, int(v)))
    if "th" in o:
        form = o.get("_thform")
        if form == "scalar":
            parts.append("ths:%d" % o["_thraw"])
        elif form == "bool":
            parts.append("thb:%d" % o["_thraw"])
        elif form == "iter":
            parts.append("thi:" + ",".join(map(str, o["_thraw"])))
        else:
            parts.append("th:" + ",".join(map(str, o["th"])))
    return ";".join(parts) if parts else "+"


def beh_text(b):
    parts = ["cost:%d" % b["cost"], "step:%d" % b.get("step", 0), "mod:%d" % b.get("mod", 1), "an:%d" % b.get("an", 0), "az:%d" % b.get("az", 0),
             "rg:%d" % b.get("rg", 0), "mode:%d" % b.get("mode", 0)]
    if "ar" in b:
        parts.append("ar:%d" % b["ar"])
    if b.get("gc"):
        parts.append("gc:%d" % b["gc"])
    if b.get("bc"):
        parts.append("bc:" + ",".join("%d=%d" % kv for kv in b["bc"]))
    return ";".join(parts)


class Spec:
    def __init__(self):
        self.crate = "treedrv"
        self.groups = []
        self.benches = []
        self.items = []      # registration order: Group / Bench objects
        self.clock = (10 ** 9, 1, 1, 1000)   # freq, delta, q, base

    def text(self, builder_ops, run_mode, use_args):
        lines = ["clock %d %d %d %d%s" % (self.clock + (" os" if getattr(self, "clock_os", False) else "",))]
        if getattr(self, "parreg", 0):
            lines.append("parreg %d" % self.parreg)
        for op in builder_ops:
            lines.append("b " + " ".join(op))
        lines.append("run " + run_mode)
        lines.append("args %d" % (1 if use_args else 0))
        for it in self.items:
            lines.append(it.spec_line())
        return "\n".join(lines) + "\n"


# ---------------------------------------------------------------------------
# Generator
# ---------------------------------------------------------------------------

LETTERS = "abcdefghijklmnopqrstuvwxyz"
PUNCT = "-_.+#<>[]()!,"
NONASCII = ["é", "ß", "ñ", "λ", "ж", "日本", "ü", "Ω"]


def rand_ident(rng, used):
    for _ in range(100):
        k = rng.randrange(5)
        if k == 0:
            s = rng.choice(LETTERS) + str(rng.choice([1, 2, 9, 10, 11, 100, 7]))
        elif k == 1:
            s = rng.choice(["m", "mod", "bench", "x"]) + rng.choice(["0", "00", "01", "1", "2", "10", "02", "20"])
        elif k == 2:
            s = "".join(rng.choice(LETTERS) for _ in range(rng.randrange(1, 8)))
        elif k == 3:
            s = rng.choice(LETTERS) + "_" + rng.choice(LETTERS) + str(rng.randrange(100))
        else:
            s = rng.choice(["r#type", "r#fn", "r#mod"]) if rng.random() < 0.3 else rng.choice(LETTERS).upper() + rng.choice(LETTERS)
        if s not in used:
            used.add(s)
            return s
    raise RuntimeError("ident")


def rand_display(rng, used, wide=True):
    for _ in range(100):
        k = rng.randrange(9)
        if k == 8:
            # digit runs on both sides of what 64 (and 128) bits hold, behind a common prefix, so that siblings differ inside the run only
            s = rng.choice(["n", "n", "w"]) + rng.choice(["", "0", "00"]) + rng.choice([
                "18446744073709551614", "18446744073709551615", "18446744073709551616", "18446744073709551617", "36893488147419103232",
                "99999999999999999999", "100000000000000000000", "340282366920938463463374607431768211455", "340282366920938463463374607431768211456",
                "4294967296", "9223372036854775808"]) + rng.choice(["", "", "x"])
        elif k == 0:
            s = rng.choice(LETTERS) + rng.choice(["1", "01", "001", "10", "9", "100", "2", "02"]) + rng.choice(["", "x", ".5"])
        elif k == 1:
            s = "".join(rng.choice(LETTERS + "0123456789") for _ in range(rng.randrange(1, 10)))
            if s[0].isdigit() and rng.random() < 0.5:
                s = "n" + s
        elif k == 2:
            s = rng.choice(LETTERS) + rng.choice(PUNCT) + rng.choice(LETTERS + "0123")
        elif k == 3 and wide:
            s = rng.choice(NONASCII) + rng.choice(LETTERS) + rng.choice(["", "2", "10"])
        elif k == 4 and wide:
            s = rng.choice(["my bench", "a b", "Group One", "x y z", "long name with spaces %d" % rng.randrange(20)])
        elif k == 5:
            s = str(rng.choice([0, 1, 2, 9, 10, 11, 99, 100, 1000])) + rng.choice(["", "a", "_b"])
        elif k == 6:
            s = rng.choice(["A<4>", "A<8>", "A<16>", "A<32>", "v1.2", "v1.10", "v1.9", "x-1", "x-10", "x-2"])
        else:
            s = "".join(rng.choice(LETTERS) for _ in range(rng.randrange(2, 14)))
        if s in used or re.match(r"^t=\d+$", s) or "  " in s or s != s.strip() or "::" in s:
            continue
        used.add(s)
        return s
    raise RuntimeError("display")


def rand_opts(rng, profile, level):
    """level: 'group' | 'bench'. Returns dict or None."""
    if rng.random() < (0.45 if level == "group" else 0.3):
        return None
    o = {}
    p = profile
    if rng.random() < p.get("p_sc", 0.3):
        o["sc"] = rng.choice([0, 1, 2, 3, 4, 5, 7])
    if rng.random() < p.get("p_ss", 0.5):
        o["ss"] = rng.choice([1, 1, 2, 3, 5]) if rng.random() > 0.05 else 0
    if rng.random() < p.get("p_th", 0.25):
        # 0 stands for the available parallelism P: lists that also name P (or 0 twice) must collapse after resolution
        P = PARALLELISM
        o["th"] = rng.choice([[1], [2], [1, 2], [0], [3, 1], [2, 2, 1], [4], [], [1, 3, 2], [0, P], [P, 0], [0, 2, P], [0, 0], [P, P, 1],
                              [2, 0], [1, 0], [3, 0, 1], [1, 0, 2, 0]])      # a literal array is kept as written: 0 may stand anywhere
        if rng.random() < 0.12:
            o["th"] = []      # a set option: one thread, and it masks the thread counts of the levels above
        # how the attribute would have spelled it: a literal array (kept as is), or a scalar / bool / iterator that goes
        # through the macro's IntoThreads conversions
        r = rng.random() if o["th"] else rng.choice([0.5, 0.9])
        if r < 0.3:
            n = rng.choice([0, 1, 2, 3, 4, 5, 6, 8])
            o["_thform"], o["_thraw"], o["th"] = "scalar", n, [n]
        elif r < 0.4:
            b = rng.choice([0, 1])
            o["_thform"], o["_thraw"], o["th"] = "bool", b, [0] if b else [1]
        elif r < 0.6:
            o["_thform"], o["_thraw"] = "iter", list(o["th"])
    if rng.random() < p.get("p_ig", 0.2):
        o["ig"] = rng.choice([1, 1, 0])
    if rng.random() < p.get("p_ctr", 0.25):
        for k in rng.sample([0, 1, 2, 3], rng.randrange(1, 3)):
            o["c%d" % k] = rng.choice([0, 1, 5, 12, 1000, 123456])
    if p.get("time_multi"):
        # several time options at one level (a budget together with the way it is accounted)
        if rng.random() < p.get("p_time", 0.0):
            o["xt"] = rng.choice([0, 1, 40, 100, 1000, 5000, 30000])
        if rng.random() < p.get("p_time", 0.0) * 0.7:
            o["mt"] = rng.choice([0, 100, 2000, 30000])
        if rng.random() < p.get("p_time", 0.0):
            o["sk"] = rng.choice([0, 1, 1])
    elif rng.random() < p.get("p_time", 0.0):
        which = rng.choice(p.get("time_kinds", [0, 1, 2]))
        if which == 0:
            o["xt"] = rng.choice([0, 1, 40, 100, 1000, 5000])
        elif which == 1:
            o["mt"] = rng.choice([0, 100, 2000])
        else:
            o["sk"] = rng.choice([0, 1])
    return o


def rand_beh(rng, profile):
    b = {"cost": rng.choice([30, 50, 100, 250, 1000]), "step": rng.choice([0, 0, 1, 7]), "mod": rng.choice([1, 2, 3]), "mode": rng.choice([0, 0, 0, 1, 2])}
    if rng.random() < profile.get("p_free_calls", 0.0):
        # calls that cost nothing: with a picosecond-grained counter a whole sample is shorter than its iteration count, so the
        # per-iteration time is exactly 0 (time cells "0 ns", throughput "inf")
        b["cost"], b["step"] = 0, 0
    if rng.random() < profile.get("p_alloc", 0.2):
        b["an"] = rng.choice([1, 2, 3])
        b["az"] = rng.choice([8, 64, 1000, 5000])
        if rng.random() < 0.4:
            b["rg"] = rng.choice([8, 100, 4096])
        if rng.random() < 0.35:
            # sporadic allocation: only the calls of one cost class allocate, so the fastest / slowest / median samples
            # differ in their allocation figures (possibly zero under fastest and slowest, non-zero under median and mean)
            b["mod"] = rng.choice([2, 3, 3, 4, 5])
            b["step"] = rng.choice([1, 7, 40])
            b["ar"] = rng.randrange(b["mod"])
    if b["mode"] == 2 and rng.random() < profile.get("p_gen_cost", 0.0):
        # input generation that costs time (outside the timed section): the two ways of accounting the budget differ
        b["gc"] = rng.choice([200, 2000, 20000])
    if rng.random() < profile.get("p_bcounter", 0.15):
        b["bc"] = [(k, rng.choice([0, 3, 77, 4096])) for k in rng.sample([0, 1, 2, 3], rng.randrange(1, 3))]
    if rng.random() < profile.get("p_nobench", 0.03):
        b["mode"] = 3
    if rng.random() < profile.get("p_inputcounter", 0.05):
        b["mode"] = 4
    return b


ARG_LISTS = {
    "i64": lambda rng: rng.choice([["-1", "-9223372036854775808", "5", "-2"], ["-2", "-1", "9223372036854775807"], ["10", "9", "100", "1"], ["-3", "5", "0", "-10", "7"], ["1", "2", "3"], ["5"], ["0", "00", "7"][:1] + ["12", "3"],
                                   [str(rng.randrange(-50, 50)) for _ in range(rng.randrange(1, 9))], [str(i * 37 % 101) for i in range(rng.randrange(10, 31))]]),
    # unsigned values at and above 2^63 share their bit patterns with negative signed ones (u64::MAX ~ -1, 2^63 ~ i64::MIN)
    "u64": lambda rng: rng.choice([["18446744073709551615", "9223372036854775808", "5"], ["18446744073709551614", "1", "18446744073709551615"],
                                   ["10", "9", "100"], ["9223372036854775807", "9223372036854775808"]]),
    "f64": lambda rng: rng.choice([["1.5", "0.25", "10", "-2.5"], ["3", "1e3", "0.001"], ["2.5", "2.25", "-0.5", "100.125"]]),
    # string-typed lists whose texts are numbers: the documented order goes by the shown names, whatever type produced them
    "string": lambda rng: rng.choice([["-0.5", "-2", "-10", "1.5", "1.25"], ["-3", "-20", "7", "-100"], ["b", "a", "c"], ["x10", "x9", "x100"], ["foo", "Foo", "bar baz"], ["é", "z", "a1"], ["10", "9", "abc", "-4"],
                                      # an empty text is a name like any other: the case's path ends in "::"
                                      ["", "a", "bc"], ["b", "", "a"]]),
    "str": lambda rng: rng.choice([["-2", "-10", "-0.5"], ["1.5", "1.25", "1e3", "-7"], ["b", "a"], ["v1.10", "v1.9", "v1.2"], ["one", "two", "three", "four"], ["x", ""]]),
    "strslice": lambda rng: rng.choice([["-1", "-11", "-2", "3"], ["2.5", "2.25", "-0.25"], ["b", "a", "c"], ["k10", "k2", "k1"], ["solo"]]),
    "char": lambda rng: rng.choice([["b", "a", "c"], ["z", "é", "A"], ["1", "9", "5"]]),
    "dbg": lambda rng: rng.choice([["1:2", "0:5", "-1:3"], ["3:3"]]),
}


def arg_render(argtype, a):
    """How the argument prints (ToString, or Debug for the Debug-only type)."""
    if argtype in ("i64", "u64"):
        return str(int(a))
    if argtype == "f64":
        return rust_f64_display(float(a))
    if argtype == "dbg":
        x, y = a.split(":")
        return "Pt(%d, %d)" % (int(x), int(y))
    return a


def rust_f64_display(v):
    if v == int(v) and abs(v) < 1e16:
        return str(int(v))
    r = repr(v)
    if "e" in r:
        # rust prints plain decimals
        from decimal import Decimal
        r = format(Decimal(r), "f")
    return r


def gen_spec(rng, profile=None):
    profile = profile or {}
    sp = Spec()
    freq = rng.choice([10 ** 9, 10 ** 9, 10 ** 12, 2 * 10 ** 9, 10 ** 6])
    if rng.random() < profile.get("p_coarse_counter", 0.0):
        freq = rng.choice([10 ** 6, 24_000_000, 1000, 32768])      # ticks of 1 us, 41.67 ns, 1 ms, 30.5 us
    # a quarter of the registries run on the OS timer (the default timer) with the scripted source in its place: 1 tick = 1 ns
    sp.clock_os = rng.random() < 0.25
    if sp.clock_os:
        freq = 10 ** 9
    sp.clock = (freq, rng.choice([1, 1, 2]), 1, rng.choice([1000, 1, 10 ** 6]))
    maxdepth = profile.get("maxdepth", 5)
    target = rng.randrange(profile.get("min_benches", 2), profile.get("max_benches", 16) + 1)
    files = ["src/a.rs", "src/b.rs", "benches/z.rs", "src/é.rs"]
    modules = [[sp.crate]]
    used_by_parent = {}
    bid = 0
    line_no = 1
    # module tree
    nmods = rng.randrange(0, min(10, target + 2))
    for _ in range(nmods):
        parent = rng.choice(modules)
        if len(parent) >= maxdepth:
            continue
        used = used_by_parent.setdefault(tuple(parent), set())
        if len([m for m in modules if m[:-1] == parent]) >= 6:
            continue
        name = rand_ident(rng, used)
        modules.append(parent + [name])
    items = []
    disp_used = {}
    fn_twins = set()
    for m in modules[1:]:
        if rng.random() < profile.get("p_group", 0.5):
            parent = m[:-1]
            du = disp_used.setdefault(tuple(parent), set())
            raw = m[-1]
            display = rand_display(rng, du) if rng.random() < 0.5 else raw.replace("r#", "")
            du.add(display)
            g = Group(parent, raw, display, rng.choice(files), rng.randrange(1, 60), rng.choice([1, 1, 5, 9]), rand_opts(rng, profile, "group"))
            items.append(g)
    # the crate root may carry a group too? (module_path would be empty: not produced by the macros) -> no
    for _ in range(target):
        m = rng.choice(modules)
        used = used_by_parent.setdefault(tuple(m), set())
        du = disp_used.setdefault(tuple(m), set())
        raw = rand_ident(rng, used)
        # a function and a sibling module may share a name (different namespaces in Rust)
        twins = [x[-1] for x in modules if x[:-1] == m and ("fn", tuple(m), x[-1]) not in fn_twins]
        clash = bool(twins) and rng.random() < profile.get("p_fn_mod_twin", 0.12)
        if clash:
            raw = rng.choice(twins)
            fn_twins.add(("fn", tuple(m), raw))
        display = rand_display(rng, du, wide=profile.get("wide", True)) if rng.random() < 0.5 else raw.replace("r#", "")
        if display in du and display != raw.replace("r#", ""):
            continue
        du.add(display)
        line_no = rng.randrange(1, 80) if rng.random() < 0.8 else line_no
        b = Bench(bid, m, raw, display, rng.choice(files), line_no, rng.choice([1, 1, 5, 9]), rand_opts(rng, profile, "bench"), rand_beh(rng, profile))
        if b.beh["cost"] == 0:
            # free calls want an explicit sample size above the read cost, a counter to show "inf", and a picosecond clock
            b.opts = dict(b.opts or {})
            b.opts.update({"ss": rng.choice([3, 5, 8]), "sc": rng.choice([1, 2, 3, 4])})
            b.opts["c%d" % rng.randrange(4)] = rng.choice([1, 5, 1000])
            for k in ("mt", "xt", "th", "_thform", "_thraw"):
                b.opts.pop(k, None)
            b.beh["mode"] = rng.choice([0, 1])
            sp.clock = (10 ** 12, sp.clock[1], 1, sp.clock[3])
            sp.clock_os = False
        r = rng.random()
        if clash and r >= profile.get("p_args", 0.25):
            r = 1.0  # a generic function would share its node with the module: keep twins plain or args
        if r < profile.get("p_args", 0.25):
            b.kind = "args"
            b.argtype = rng.choice(list(ARG_LISTS))
            b.args = list(ARG_LISTS[b.argtype](rng))
            if rng.random() < 0.05:
                b.args = []
        elif r < profile.get("p_args", 0.25) + profile.get("p_generic", 0.2):
            b.kind = "generic"
            which = rng.randrange(3)
            if which in (0, 2):
                b.types = rng.sample(range(len(TYPE_PALETTE)), rng.randrange(1, 4))
            if which in (1, 2):
                b.constkind = rng.choice(["i64", "i64", "u8", "char", "bool", "f64", "str"])
                b.consts = {"i64": lambda: rng.choice([["8", "16", "4", "32"], ["-1", "10", "9"], ["100", "20", "3"], ["-3", "-20", "5", "-100", "0"], ["-9", "-10", "-1"]]),
                            "u8": lambda: rng.choice([["1", "10", "2"], ["255", "0"]]),
                            "char": lambda: rng.choice([["b", "a"], ["z", "é", "A"]]),
                            "bool": lambda: rng.choice([["true", "false"], ["false"]]),
                            "f64": lambda: rng.choice([["1.5", "0.25", "10"], ["2.5", "-1"]]),
                            "str": lambda: rng.choice([["x10", "x9"], ["b", "a", "c"]])}[b.constkind]()
            if rng.random() < 0.04:
                b.types, b.consts = [], []
            b.beh["mode"] = 0 if b.beh["mode"] in (3, 4) else b.beh["mode"]
        b.order = len(items)
        items.append(b)
        bid += 1
    if rng.random() < profile.get("p_bigruns", 0.15):
        # siblings whose names differ only inside a digit run that no 64-bit (or 128-bit) integer holds
        bym = {}
        for it in items:
            if isinstance(it, Bench):
                bym.setdefault(tuple(it.modpath), []).append(it)
        cands = [v for v in bym.values() if len(v) >= 2]
        if cands:
            v = rng.choice(cands)
            chosen = rng.sample(v, min(len(v), rng.choice([2, 3])))
            nums = rng.sample(["18446744073709551615", "18446744073709551616", "18446744073709551617", "36893488147419103232", "99999999999999999999",
                               "100000000000000000000", "340282366920938463463374607431768211455", "340282366920938463463374607431768211456"], len(chosen))
            pre = rng.choice(["n", "w", "len="])
            du = disp_used.setdefault(tuple(chosen[0].modpath), set())
            for b, num in zip(chosen, nums):
                name = pre + rng.choice(["", "", "0"]) + num
                if name not in du:
                    du.discard(b.display)
                    b.display = name
                    du.add(name)
    # two benchmarks of one process whose integer arguments share bit patterns across signedness
    argb = [b for b in items if isinstance(b, Bench) and b.kind == "args" and b.args]
    if len(argb) >= 2 and rng.random() < 0.3:
        x, y = rng.sample(argb, 2)
        x.argtype, x.args = "i64", list(rng.choice([["-1", "-9223372036854775808", "5", "-2"], ["-2", "-1", "7"]]))
        y.argtype, y.args = "u64", list(rng.choice([["18446744073709551615", "9223372036854775808", "5"], ["18446744073709551614", "18446744073709551615"]]))
    if rng.random() < profile.get("p_wide_counts", 0.0):
        # sample_count and sample_size that are each fine as u32 but whose product needs more than 32 bits, set at different
        # levels (the size comes from the runner, see gen_config), cut short by a 1 ns max_time: exactly one round runs
        cands = [b for b in items if isinstance(b, Bench) and b.kind == "plain"]
        if cands:
            b = rng.choice(cands)
            b.beh = {"cost": 1, "step": 0, "mod": 1, "mode": 0}
            b.opts = {"sc": rng.choice([65536, 1 << 20]), "xt": 1}
            for other in items:
                # everything else in this registry stays small whatever sample size the runner sets
                if isinstance(other, Bench) and other is not b:
                    other.opts = dict(other.opts or {})
                    other.opts["sc"] = min(other.opts.get("sc", 2), 2)
                    other.opts.setdefault("ss", 1)
                    for k in ("mt", "xt"):
                        other.opts.pop(k, None)
                    other.beh["cost"] = min(other.beh.get("cost", 30), 100)
                    other.beh.pop("an", None)
                elif isinstance(other, Group) and other.opts:
                    for k in ("mt", "xt", "sc"):
                        other.opts.pop(k, None)
            sp.clock = (10 ** 9, 1, 1, 1000)
            sp.clock_os = False
            sp.wide_counts = True
    if (rng.random() < profile.get("p_minmax_scenario", 0.0) and sp.clock[0] == 10 ** 9 and not getattr(sp, "wide_counts", False)):
        # a floor and a ceiling set at DIFFERENT levels, the ceiling below the floor, and a third, higher-priority level that
        # raises the ceiling again: the floor must come back into force (options resolve field by field, partial merges of
        # two levels must not bake one field into another)
        cands = [b for b in items if isinstance(b, Bench) and b.kind == "plain" and len(b.modpath) >= 2]
        if cands:
            b = rng.choice(cands)
            m = list(b.modpath)
            groups = {tuple(g.modpath + [g.raw]): g for g in items if isinstance(g, Group)}

            def group_at(path):
                g = groups.get(tuple(path))
                if g is None:
                    g = Group(path[:-1], path[-1], path[-1].replace("r#", ""), rng.choice(files), rng.randrange(1, 60), 1, {})
                    items.append(g)
                    groups[tuple(path)] = g
                g.opts = dict(g.opts or {})
                return g

            X, Y, Z = 3000, rng.choice([100, 300]), rng.choice([2000, 6000])
            b.beh = {"cost": 100, "step": 0, "mod": 1, "mode": 0}
            b.opts = {k: v for k, v in (b.opts or {}).items() if k.startswith("c")}
            b.opts.update({"sc": 2, "ss": 1})
            for k in range(2, len(m) + 1):
                g = groups.get(tuple(m[:k]))
                if g is not None and g.opts:
                    for f in ("mt", "xt", "sc", "ss"):
                        g.opts.pop(f, None)
            if len(m) >= 3 and rng.random() < 0.6:
                k = rng.randrange(2, len(m))
                lo, hi = (("mt", X), ("xt", Y)) if rng.random() < 0.5 else (("xt", Y), ("mt", X))
                group_at(m[:k]).opts[lo[0]] = lo[1]
                group_at(m[:rng.randrange(k + 1, len(m) + 1)]).opts[hi[0]] = hi[1]
                b.opts["xt"] = Z
            else:
                g = group_at(m[:rng.randrange(2, len(m) + 1)])
                if rng.random() < 0.5:
                    g.opts["mt"], b.opts["xt"] = X, Y
                else:
                    g.opts["xt"], b.opts["mt"] = Y, X
                sp.minmax_runner_xt = Z
            sp.clock_os = False
    if rng.random() < profile.get("p_huge_time", 0.0) and sp.clock[0] in (10 ** 9, 2 * 10 ** 9, 10 ** 6) and not getattr(sp, "wide_counts", False):
        # samples that last 10^11 ... 10^12 days on a 1 Hz counter: time cells wider than every other cell of the table (small enough
        # for the 64-bit counter to hold the whole run whatever sample count and thread counts the runner sets)
        cands = [b for b in items if isinstance(b, Bench) and b.kind == "plain"]
        if cands:
            b = rng.choice(cands)
            b.beh = {"cost": rng.choice([10 ** 16, 8_640_000_000_000_000, 10 ** 17, 123456789 * 10 ** 9]), "step": rng.choice([0, 1]), "mod": 2, "mode": 0}
            b.opts = {k: v for k, v in (b.opts or {}).items() if k.startswith("c")}
            b.opts.update({"sc": 2, "ss": 1})
            sp.clock = (1, 1, 1, 1000)
            sp.clock_os = False
    if rng.random() < profile.get("p_budget_scenario", 0.0):
        # a benchmark whose number of rounds depends strongly on HOW its time budget is accounted: expensive input generation
        # outside the timed section, cheap calls, a max_time between the two accountings, skip_ext_time set by attribute
        # (own or inherited) - so that a run-time `skip_ext_time = false` (and nothing else) visibly changes the run
        cands = [b for b in items if isinstance(b, Bench) and b.kind == "plain"]
        if cands:
            b = rng.choice(cands)
            b.beh = {"cost": 100, "step": 0, "mod": 1, "mode": 2, "gc": rng.choice([2000, 5000])}
            b.opts = dict(b.opts or {})
            b.opts.update({"sc": 12, "ss": 1, "xt": rng.choice([700, 1000]), "sk": 1})
            for k in ("mt", "th", "_thform", "_thraw", "ig"):
                b.opts.pop(k, None)
            sp.clock = (10 ** 9, 1, 1, 1000)
            sp.clock_os = rng.random() < 0.3
            sp.budget_scenario = True
    rng.shuffle(items)
    # declaration order of benches follows their position in the (shuffled) registration list
    for i, it in enumerate(items):
        if isinstance(it, Bench):
            it.order = i
    sp.items = items
    sp.groups = [i for i in items if isinstance(i, Group)]
    sp.benches = [i for i in items if isinstance(i, Bench)]
    return sp


# ---------------------------------------------------------------------------
# Reference model: tree, selection, options, order
# ---------------------------------------------------------------------------

class MNode:
    """Model node. kind: 'parent' | 'leaf'."""

    def __init__(self, kind, raw, display):
        self.kind, self.raw, self.display = kind, raw, display
        self.children = []
        self.group = None        # Group or generic Bench acting as group
        self.opts = None         # options attached at this node
        self.bench = None        # Bench for leaves
        self.args = None         # list of (index, rendering) for args leaves
        self.ty = None
        self.const = None
        self.const_index = None
        self.inst_index = None   # declaration index among the instantiations of one generic benchmark
        self.location = None
        self.order = None

    def name(self):
        return self.display


def build_tree(sp):
    roots = []

    def child(nodes, raw):
        for n in nodes:
            if n.kind == "parent" and n.raw == raw:
                return n
        return None

    def descend(path):
        nodes = roots
        node = None
        for comp in path:
            c = child(nodes, comp)
            if c is None:
                c = MNode("parent", comp, comp[2:] if comp.startswith("r#") else comp)
                nodes.append(c)
            node = c
            nodes = c.children
        return node, nodes

    for b in sp.benches:
        if b.kind in ("plain", "args"):
            _, nodes = descend(b.modpath)
            leaf = MNode("leaf", b.raw, b.display)
            leaf.bench = b
            leaf.opts = b.opts
            leaf.location = (b.file, b.line, b.col)
            leaf.order = b.order
            if b.kind == "args":
                leaf.args = [(i, arg_render(b.argtype, a)) for i, a in enumerate(b.args)]
            nodes.append(leaf)
        else:
            tys = b.types if b.types else [None]
            cvs = b.consts if b.consts else [None]
            if not b.types and not b.consts:
                continue
            inst = 0
            for t in tys:
                for ci, c in enumerate(cvs):
                    path = b.modpath + [b.raw]
                    traw = (TYPE_PALETTE[t] if isinstance(t, int) else t) if t is not None else None
                    tdisp = type_display(traw) if t is not None else None
                    if c is not None and t is not None:
                        path = path + [tdisp]
                    _, nodes = descend(path)
                    disp = const_render(b.constkind, c) if c is not None else tdisp
                    leaf = MNode("leaf", disp, disp)
                    leaf.bench = b
                    leaf.opts = b.opts
                    leaf.ty = traw
                    if b.args:
                        leaf.args = [(i, arg_render(b.argtype, a)) for i, a in enumerate(b.args)]
                    leaf.const = c
                    leaf.const_index = ci
                    leaf.inst_index = inst
                    leaf.location = (b.file, b.line, b.col)
                    leaf.order = b.order
                    nodes.append(leaf)
                    inst += 1
    # attach groups (bench_group modules and the generic benchmarks' own entries)
    def attach(modpath, raw, display, opts, location, order):
        nodes = roots
        for comp in modpath:
            c = child(nodes, comp)
            if c is None:
                return
            nodes = c.children
        c = child(nodes, raw)
        if c is None:
            return
        c.group = True
        c.display = display
        c.opts = opts
        c.location = location
        c.order = order

    for it in sp.items:
        if isinstance(it, Group):
            attach(it.modpath, it.raw, it.display, it.opts, (it.file, it.line, it.col), None)
        elif it.kind == "generic":
            attach(it.modpath, it.raw, it.display, it.opts, (it.file, it.line, it.col), it.order)
    return roots


def const_render(kind, c):
    if kind == "f64":
        return rust_f64_display(float(c))
    if kind in ("i64", "u8"):
        return str(int(c))
    return c


def const_value(kind, c):
    if kind in ("i64", "u8"):
        return int(c)
    if kind == "f64":
        return float(c)
    if kind == "bool":
        return c == "true"
    return c


class Case:
    """One runnable case: a leaf, or one argument of an args leaf."""

    def __init__(self, leaf, path_nodes, arg=None):
        self.leaf, self.path_nodes, self.arg = leaf, path_nodes, arg

    def path(self):
        comps = [n.display for n in self.path_nodes]
        if self.arg is not None:
            comps.append(self.arg[1])
        return "::".join(comps)


def cases(roots):
    out = []

    def rec(node, anc):
        here = anc + [node]
        if node.kind == "leaf":
            if node.args is not None:
                for a in node.args:
                    out.append(Case(node, here, a))
            else:
                out.append(Case(node, here))
        else:
            for c in node.children:
                rec(c, here)

    for r in roots:
        rec(r, [])
    return out


class Filters:
    def __init__(self, positive=(), skip=(), exact=False, builder_skip=()):
        self.positive, self.skip, self.exact = list(positive), list(skip), exact
        self.builder_skip = list(builder_skip)   # (pattern, is_regex)

    def selected(self, path):
        def m(pat, regex):
            if regex:
                return re.search(pat, path) is not None
            return pat == path
        for pat, rx in self.builder_skip:
            if m(pat, rx):
                return False
        for pat in self.skip:
            if m(pat, not self.exact):
                return False
        if not self.positive:
            return True
        return any(m(pat, not self.exact) for pat in self.positive)


OPTION_FIELDS = ("sc", "ss", "th", "mt", "xt", "sk", "ig", "c0", "c1", "c2", "c3")


def effective_options(case, runner_opts):
    """Per field: runner ?? benchmark ?? nearest enclosing group ?? None (default)."""
    eff = {}
    chain = [runner_opts, case.leaf.opts]
    for n in reversed(case.path_nodes[:-1]):
        if n.opts is not None:
            chain.append(n.opts)
    for f in OPTION_FIELDS:
        for o in chain:
            if o is not None and f in o:
                eff[f] = o[f]
                break
    return eff


def thread_counts(eff):
    th = eff.get("th")
    if not th:
        return [1]
    return sorted({PARALLELISM if t == 0 else t for t in th})


def runs_under(ignore_mode, ignored):
    """ignore_mode: 'no' | 'include' | 'only'."""
    if ignore_mode == "include":
        return True
    if ignore_mode == "only":
        return ignored
    return not ignored


# -- ordering ---------------------------------------------------------------

def node_kind_key(n):
    return 0 if n.kind == "leaf" else 1


# When set, only these model nodes (by id) exist in the tree being ordered: divan sorts after filtering, and a module without a
# position of its own takes the earliest position among the children that are left.
ALIVE = None


def node_location(n):
    if n.location is not None:
        return n.location
    locs = [node_location(c) for c in n.children if ALIVE is None or id(c) in ALIVE]
    locs = [l for l in locs if l is not None]
    return min(locs) if locs else None


def cmp_name_nodes(a, b):
    if a.kind == "leaf" and b.kind == "leaf" and a.const is not None and b.const is not None and a.bench is b.bench:
        va, vb = const_value(a.bench.constkind, a.const), const_value(b.bench.constkind, b.const)
        if va != vb:
            return -1 if va < vb else 1
    return models.natural_cmp(a.display, b.display)


def cmp_loc_nodes(a, b):
    la, lb = node_location(a), node_location(b)
    if la is None or lb is None:
        c = (la is not None) - (lb is not None)    # None sorts first (Option ordering)
        if c:
            return c
    else:
        c = models.cmp(la, lb)
        if c:
            return c
    # same position: instantiations of one benchmark keep their declaration order
    if a.kind == "leaf" and b.kind == "leaf" and a.bench is b.bench and a.inst_index is not None and b.inst_index is not None:
        return models.cmp(a.inst_index, b.inst_index)
    return 0


def cmp_nodes(attr, a, b):
    order = {0: (0, 1, 2), 1: (1, 2, 0), 2: (2, 0, 1)}[attr]
    for k in order:
        if k == 0:
            c = models.cmp(node_kind_key(a), node_kind_key(b))
        elif k == 1:
            c = cmp_name_nodes(a, b)
        else:
            c = cmp_loc_nodes(a, b)
        if c:
            return c
    return 0
