"""Verdict plumbing: violations, known findings, replay files, evidence files."""
import json
import os
import sys
import time

VERIF = os.path.dirname(os.path.dirname(os.path.abspath(__file__)))
EVIDENCE_DIR = os.path.join(VERIF, "evidence")
REPLAY_DIR = os.path.join(VERIF, "replays")
FINDINGS_FILE = os.path.join(VERIF, "known_findings.json")


def load_findings():
    try:
        with open(FINDINGS_FILE) as f:
            data = json.load(f)
    except FileNotFoundError:
        return []
    return data.get("findings", [])


class Outcome:
    """Collects what one check run observed and decides the exit status."""

    def __init__(self, prop, tier, seed):
        self.prop, self.tier, self.seed = prop, tier, seed
        self.t0 = time.time()
        self.violations = []       # dicts: {signature, msg, replay:{...}}
        self.known_hits = {}       # signature -> count
        self.inconclusive = []     # strings
        self.evaluations = 0
        self.distinct = set()
        self.samples = []
        self.extra = {}
        self.rule = ""
        self.assumptions = []
        self.minima = []           # (name, observed, required)
        self.findings = [f for f in load_findings() if f.get("property") == prop and f.get("status", "open") == "open"]

    # -- recording --------------------------------------------------------
    def violation(self, signature, msg, replay):
        """signature: exact key used for known-finding matching."""
        for f in self.findings:
            if f["signature"] == signature:
                self.known_hits[signature] = self.known_hits.get(signature, 0) + 1
                return
        self.violations.append({"signature": signature, "msg": msg, "replay": replay})

    def inconclusive_shard(self, what):
        self.inconclusive.append(what)

    def add_sample(self, sample, limit=8):
        if len(self.samples) < limit:
            self.samples.append(sample)

    def require(self, name, observed, required):
        self.minima.append((name, observed, required))

    # -- finishing --------------------------------------------------------
    def finish(self):
        os.makedirs(EVIDENCE_DIR, exist_ok=True)
        os.makedirs(REPLAY_DIR, exist_ok=True)
        wall = time.time() - self.t0
        unmet = [(n, o, r) for (n, o, r) in self.minima if o < r]
        # three-valued verdicts: a run that lost a large part of its executions to inconclusive shards is undecided, not "held"
        if len(self.inconclusive) >= 10 and len(self.inconclusive) * 3 > max(1, self.evaluations):
            unmet.append(("conclusive_share (inconclusive=%d of %d executions)" % (len(self.inconclusive), self.evaluations), 0, 1))
        # group violations by signature; one replay file per signature
        by_sig = {}
        for v in self.violations:
            by_sig.setdefault(v["signature"], []).append(v)
        lines = []
        for sig, vs in by_sig.items():
            name = "%s_%s_%d.json" % (self.prop, "".join(ch if ch.isalnum() else "_" for ch in sig)[:80], self.seed)
            path = os.path.join(REPLAY_DIR, name)
            with open(path, "w") as f:
                json.dump({"property": self.prop, "tier": self.tier, "seed": self.seed, "signature": sig, "count": len(vs),
                           "first": vs[0], "more": [v["msg"] for v in vs[1:6]]}, f, indent=1, default=str)
            lines.append("VIOLATION property=%s replay=%s" % (self.prop, path))
            sys.stdout.write("  %s: %s (x%d)\n" % (sig, vs[0]["msg"][:400], len(vs)))
        for sig, n in self.known_hits.items():
            what = next(f["what"] for f in self.findings if f["signature"] == sig)
            sys.stdout.write("KNOWN-FINDING: property=%s %s [%s, seen %d times]\n" % (self.prop, what, sig, n))
        for w in self.inconclusive[:20]:
            sys.stdout.write("INCONCLUSIVE: property=%s %s\n" % (self.prop, w))
        coverage = {
            "evaluations": int(self.evaluations),
            "distinct_nontrivial": len(self.distinct),
            "rule": self.rule,
            "samples": self.samples if self.samples else ["<none>"],
            "inconclusive": len(self.inconclusive),
            "known_findings_seen": self.known_hits,
            "minima": [{"name": n, "observed": o, "required": r} for (n, o, r) in self.minima],
        }
        coverage.update(self.extra)
        ev = {
            "property_id": self.prop, "tier": self.tier, "seed": int(self.seed), "level": "exploration",
            "coverage": coverage, "assumptions": self.assumptions, "wall_s": round(wall, 2),
            "violations": len(by_sig),
        }
        if not getattr(self, "replay_mode", False):
            # a replay re-judges one recorded case; it must not replace the evidence of the last full run
            with open(os.path.join(EVIDENCE_DIR, self.prop + ".json"), "w") as f:
                json.dump(ev, f, indent=1, default=str)
        for l in lines:
            sys.stdout.write(l + "\n")
        if lines:
            sys.stdout.write("%s: VIOLATED (%d distinct signatures) in %.1fs\n" % (self.prop, len(lines), wall))
            return 1
        if unmet:
            for (n, o, r) in unmet:
                sys.stdout.write("UNDECIDED: property=%s observed too little: %s=%s < %s\n" % (self.prop, n, o, r))
            return 2
        sys.stdout.write("%s: held on %d executions (%d distinct non-trivial), %d inconclusive, %.1fs\n" % (
            self.prop, self.evaluations, len(self.distinct), len(self.inconclusive), wall))
        return 0
