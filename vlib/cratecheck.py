"""C12: every #[divan::bench] / #[divan::bench_group] item is registered exactly once (generated crates through the
attribute macros and the linker), plus the macro-path slices of C13 / C15 / C16 / C17."""
import os
import random
import shutil
import subprocess
from concurrent.futures import ThreadPoolExecutor

from . import build, progen, tree_parse, treegen as TG, treejudge as TJ, treemodel as TM, treerun as TR

NCPU = os.cpu_count() or 4
ONE = ["--threads", "1", "--sample-count", "1", "--sample-size", "1", "--max-time", "1000", "--min-time", "0"]


def gen_dir(tag):
    return os.path.join(build.BUILD, "gen", tag)


def write_crate(tag, programs, profile_extra=""):
    d = gen_dir(tag)
    shutil.rmtree(d, ignore_errors=True)
    os.makedirs(os.path.join(d, "src", "bin"))
    with open(os.path.join(d, "Cargo.toml"), "w") as f:
        f.write('[package]\nname = "vgen"\nversion = "0.0.0"\nedition = "2021"\npublish = false\n\n[dependencies]\ndivan = { path = "%s" }\n\n'
                '[profile.dev]\nopt-level = 0\ndebug = 0\n%s\n[workspace]\n' % (build.REPO, profile_extra))
    lock = os.path.join(build.VERIF, "harness", "Cargo.lock")
    if os.path.exists(lock):
        shutil.copy(lock, os.path.join(d, "Cargo.lock"))
    for P in programs:
        with open(os.path.join(d, P.file), "w") as f:
            f.write(P.source)
    return d


def cargo_build(d, target, release=False, rustflags=None):
    env = dict(os.environ)
    env["CARGO_NET_OFFLINE"] = "true"
    env["CARGO_TARGET_DIR"] = target
    env.pop("RUSTFLAGS", None)
    if rustflags:
        env["RUSTFLAGS"] = rustflags
    cmd = ["cargo", "build", "--offline", "--bins"] + (["--release"] if release else [])
    p = subprocess.run(cmd, cwd=d, env=env, stdout=subprocess.PIPE, stderr=subprocess.STDOUT, text=True)
    return p.returncode, p.stdout


def parse_dump(text):
    rows = []
    ok = False
    for ln in text.split("\n"):
        p = ln.split(" ")
        if p[0] in ("B", "G") and len(p) >= 9:
            un = lambda h: "" if h == "-" else bytes.fromhex(h).decode("utf-8")
            rows.append((p[0], un(p[1]), un(p[2]), un(p[3]), un(p[4]), int(p[5]), int(p[6]), p[7], p[8]))
        elif ln.strip() == "DUMP-END":
            ok = True
    return rows, ok


def expected_dump(P):
    rows = []
    for (kind, display, raw, modpath, line, col, opts, extra) in P.dump_expect:
        rows.append((kind, display, raw, modpath, P.file, line, col, progen.dump_options_text(opts), extra))
    return rows


def run_bin(exe, cli, env_extra=None, timeout=120):
    env = {k: v for k, v in os.environ.items() if not k.startswith("DIVAN_") and k not in ("NEXTEST",)}
    env.update(env_extra or {})
    try:
        p = subprocess.run([exe] + cli, stdout=subprocess.PIPE, stderr=subprocess.PIPE, env=env, timeout=timeout)
        return p.returncode, p.stdout.decode("utf-8", "replace"), p.stderr.decode("utf-8", "replace")
    except subprocess.TimeoutExpired:
        return None, "", "timeout"


def configs_for(rng, P, tier):
    """(cli, env, intent) triples: everything runs on one thread (`--threads 1` at the runner overrides all)."""
    out = []
    roots = TG.build_tree(P.spec)
    paths = [c.path() for c in TG.cases(roots)]

    def intent(action, ignore_mode, sort=(0, False), filters=None):
        it = TM.Intent()
        it.action = action
        it.ignore_mode = ignore_mode
        # the runner overrides threads and every budget, so that each case runs exactly once on the calling thread
        it.runner_opts = {"th": [1], "sc": 1, "ss": 1, "xt": 1000 * 10 ** 9, "mt": 0}
        it.sort_attr, it.sort_rev = sort
        it.filters = filters or TG.Filters()
        return it

    out.append((["--test", "--include-ignored", *ONE], {}, intent("test", "include")))
    out.append((["--list", *ONE], {}, intent("list", "no")))
    out.append((["--test", *ONE], {}, intent("test", "no")))
    out.append((["--test", "--ignored", *ONE], {}, intent("test", "only")))
    n = 4 if tier == "quick" else 12
    for _ in range(n):
        attr, rev = rng.randrange(3), rng.random() < 0.5
        cli = ["--test", "--include-ignored", *ONE, "--sortr" if rev else "--sort", TR.SORT_NAMES[attr]]
        f = None
        if rng.random() < 0.6 and paths:
            exact = rng.random() < 0.4
            pos = [TR.rand_filter(rng, paths, exact) for _ in range(rng.choice([0, 1, 2]))]
            skip = [TR.rand_filter(rng, paths, exact) for _ in range(rng.choice([0, 1]))]
            f = TG.Filters(pos, skip, exact)
            cli += pos
            for s in skip:
                cli += ["--skip", s]
            if exact:
                cli.append("--exact")
        out.append((cli, {}, intent("test", "include", (attr, rev), f)))
    return out


class FakeCfg:
    def __init__(self, cli, env, intent):
        self.cli, self.env, self.builder, self.run_mode, self.use_args, self.intent = cli, env, [], "main", True, intent

    def describe(self):
        return {"cli": self.cli, "env": self.env}


def judge_program(prop, P, exe, rng, tier, out, agg, label):
    # 1. registry dump: nothing missing, nothing extra, metadata as written
    rc, so, se = run_bin(exe, [], {"VERIF_DUMP": "1"})
    got, ok = parse_dump(so)
    payload = {"engine": "generated-crate", "program": P.crate, "variant": label, "source": P.source[-12000:]}
    out.evaluations += 1
    if rc != 0 or not ok:
        out.violation("C12:dump_crashed", "registry dump of the generated program failed rc=%s: %s" % (rc, se[-300:]), payload) if prop == "C12" else None
        return
    exp = expected_dump(P)
    key = lambda r: (r[0], r[2], r[3])
    gs, es = sorted(got), sorted(exp)
    agg["entries_expected"] = agg.get("entries_expected", 0) + len(exp)
    if prop == "C12":
        gk, ek = [key(r) for r in gs], [key(r) for r in es]
        for k in ek:
            if gk.count(k) < ek.count(k):
                out.violation("C12:not_registered", "item %s (%s in module %s) was written but is not in the registry" % (k[1], "group" if k[0] == "G" else "benchmark", k[2]), payload)
        for k in gk:
            if ek.count(k) < gk.count(k):
                out.violation("C12:registered_twice_or_phantom", "registry holds %s (%s in module %s) %d times, written %d times" % (k[1], k[0], k[2], gk.count(k), ek.count(k)), payload)
        by = {}
        for r in es:
            by.setdefault(key(r), []).append(r)
        for r in gs:
            cands = by.get(key(r), [])
            if not cands:
                continue
            e = cands.pop(0)
            fields = ["kind", "display name", "raw name", "module path", "file", "line", "column", "options", "shape"]
            for i in (1, 4, 5, 6, 7, 8):
                if r[i] != e[i]:
                    code = {1: "display_name", 4: "file", 5: "line", 6: "column", 7: "options", 8: "shape"}[i]
                    out.violation("C12:meta_%s" % code, "%s::%s: %s registered as %r, written as %r" % (r[3], r[2], fields[i], r[i], e[i]), payload)
    # 2. behaviour: listed / executed sets, labels, order, per configuration
    for cli, env, it in configs_for(rng, P, tier):
        rc, so, se = run_bin(exe, cli, env)
        res = TR.RunResult()
        res.rc, res.stdout, res.stderr = rc, so, se
        res.spec_text = P.source[-8000:]
        cfg = FakeCfg(cli, env, it)
        out.evaluations += 1
        if rc != 0:
            if prop == "C12":
                out.violation("C12:program_crashed", "generated program exited %s under %s: %s" % (rc, cli, se[-400:]), dict(payload, cli=cli))
            continue
        try:
            res.roots, res.log, res.status = tree_parse.parse_output(so)
        except tree_parse.ParseError as e:
            res.parse_error = str(e)
        vs, obs, incon = TJ.judge(P.spec, cfg, res, want={"C13", "C15", "C16", "C17", "C20"})
        if incon:
            out.inconclusive_shard("generated program run not judged: %s" % incon[:200])
            continue
        for k, v in obs.items():
            agg[k] = agg.get(k, 0) + v
        out.distinct.add((P.crate, label, tuple(cli)))
        for v in vs:
            # on the macro path a missing / extra / mislabelled node means the item was not registered as written
            mapped = {"C20": "C12", "C13": "C12" if not (it.filters.positive or it.filters.skip or it.filters.builder_skip) else "C13"}.get(v.prop, v.prop)
            if prop == "C20" and v.prop == "C20":
                mapped = "C20"       # the printed tree of a real crate judged under C20's own statement
            if mapped == prop:
                out.violation("%s:%s" % (prop, v.code), "[generated crate %s, %s] %s" % (P.crate, " ".join(cli), v.msg), dict(payload, cli=cli, stdout=so[-4000:]))
    # 3. terse listing = expected case multiset, under each ignore mode (every registered case at its path, skipped ones left out)
    for mode, flags in (("include", ["--include-ignored"]), ("no", []), ("only", ["--ignored"])):
        rc, so, se = run_bin(exe, ["--list", "--format", "terse"] + flags, {"NEXTEST": "1"})
        if rc != 0 or prop != "C12":
            continue
        body = so.split(tree_parse.MARK_LOG)[0]
        listed = sorted(l[:-len(": benchmark")] for l in body.split("\n") if l.endswith(": benchmark"))
        roots = TG.build_tree(P.spec)
        want = sorted(c.path() for c in TG.cases(roots) if mode == "include" or TG.runs_under(mode, bool(TG.effective_options(c, {}).get("ig", 0))))
        agg["cases_expected"] = agg.get("cases_expected", 0) + len(want)
        out.evaluations += 1
        if listed != want:
            missing = [p for p in want if listed.count(p) < want.count(p)]
            extra = [p for p in listed if want.count(p) < listed.count(p)]
            out.violation("C12:case_set", "terse listing (%s): cases found %s differ from cases written: missing %s, extra %s" % (
                " ".join(flags) or "default", len(listed), missing[:5], extra[:5]), dict(payload, stdout=so[-3000:]))


def prepare(tier, seed):
    """Generates and builds the crate for (tier, seed); shared by every property's check (cargo rebuilds what changed)."""
    rng = random.Random(seed * 65537 + 12)
    nprog = 3 if tier == "quick" else 16
    size = 6 if tier == "quick" else 9
    # binary names carry tier and seed: all crates share one target directory, and cargo uplifts binaries by name
    programs = [progen.gen_program(rng, "%s%dp%d" % (tier[0], seed, i), i, rng.randrange(size - 2, size + 3)) for i in range(nprog)]
    tag = "shared-%s-%d%s" % (tier, seed, build._suffix())
    d = gen_dir(tag)
    same = os.path.isdir(d) and all(os.path.exists(os.path.join(d, P.file)) and open(os.path.join(d, P.file)).read() == P.source for P in programs)
    if not same:
        d = write_crate(tag, programs)
    target = os.path.join(build.BUILD, "gen-target" + build._suffix())
    import fcntl
    os.makedirs(build.BUILD, exist_ok=True)
    with open(os.path.join(build.BUILD, "gen.lock"), "w") as lock:
        fcntl.flock(lock, fcntl.LOCK_EX)
        rc, log = cargo_build(d, target)
    return programs, d, target, rc, log, rng


def macro_slice(prop, tier, seed, out):
    """The macro-expansion path of a registry-level property: the same oracles on generated crates."""
    programs, d, target, rc, log, rng = prepare(tier, seed)
    agg = {}
    if rc != 0:
        out.inconclusive_shard("generated crate failed to build: %s" % log[-800:].replace("\n", " | "))
        return agg
    for P in programs:
        exe = os.path.join(target, "debug", P.crate)
        judge_program(prop, P, exe, rng, tier, out, agg, "dev")
    out.extra["generated_crates"] = dict(agg, programs=len(programs))
    return agg


def c14_macro_slice(tier, seed, out):
    """C14 on real crates (attribute macros, one shared argument list per generic benchmark): under each ignore mode the terse
    listing invokes nothing and names, as a multiset, exactly the cases a `--test` run with the same flags really executes - "really"
    meaning the (function, type, constant, argument) each body reports having been called with, not the label printed next to it -
    and a listed path fed back as the only --exact filter executes that case and no other."""
    from . import treejudge as TJ2
    programs, d, target, rc, log, rng = prepare(tier, seed)
    st = {"programs": 0, "listings_compared": 0, "listed_cases": 0, "roundtrips": 0}
    if rc != 0:
        out.inconclusive_shard("generated crate failed to build: %s" % log[-800:].replace("\n", " | "))
        return st
    rng = random.Random(seed * 77 + 14)
    for P in programs:
        exe = os.path.join(target, "debug", P.crate)
        roots = TG.build_tree(P.spec)
        keymap = {}
        for c in TG.cases(roots):
            keymap.setdefault((c.leaf.bench.bid, c.arg[1] if c.arg else None, c.leaf.ty, c.leaf.const), []).append(c.path())
        ambiguous = {k for k, v in keymap.items() if len(set(v)) > 1}
        # a case whose effective budget is zero (sample_count / sample_size / max_time of 0) is listed but makes no call: not judged
        zero_budget = set()
        for c in TG.cases(roots):
            eff = TG.effective_options(c, {})
            if eff.get("sc") == 0 or eff.get("ss") == 0 or eff.get("xt") == 0:
                zero_budget.add(c.path())
        st["programs"] += 1
        payload = {"engine": "generated-crate", "program": P.crate, "source": P.source[-12000:]}

        def executed_paths(so):
            tail = so.split(tree_parse.MARK_LOG, 1)[1] if tree_parse.MARK_LOG in so else ""
            lines = [l for l in tail.split("\n") if l and l != tree_parse.MARK_END and not l.startswith("status")]
            lg = TJ2.parse_log(lines)
            paths, unknown = [], []
            for r in lg["runs"]:
                k = (r["bid"], r["arg"], r["ty"], r["const"])
                if k in keymap and k not in ambiguous:
                    paths.append(keymap[k][0])
                else:
                    unknown.append(k)
            return lg, paths, unknown

        first_listed = None
        for mode, flags in (("include", ["--include-ignored"]), ("no", []), ("only", ["--ignored"])):
            # (one thread count for every benchmark, on both sides: a case is then called exactly once by a run)
            flags = flags + ["--threads", "1"]
            rc1, so1, se1 = run_bin(exe, ["--list", "--format", "terse"] + flags, {"NEXTEST": "1"})
            rc2, so2, se2 = run_bin(exe, ["--test"] + flags)
            out.evaluations += 2
            if rc1 != 0 or rc2 != 0:
                out.inconclusive_shard("generated program exited %s / %s under %s" % (rc1, rc2, flags))
                continue
            lg1, _, _ = executed_paths(so1)
            if lg1["runs"] or lg1["enters"]:
                out.violation("C14:terse_invoked", "[generated crate %s] terse listing invoked %d benchmark bodies" % (P.crate, len(lg1["enters"])), dict(payload, cli=flags))
            listed = sorted(l[:-len(": benchmark")] for l in so1.split(tree_parse.MARK_LOG)[0].split("\n") if l.endswith(": benchmark"))
            lg2, ran, unknown = executed_paths(so2)
            if unknown:
                out.inconclusive_shard("generated program: %d executed cases could not be mapped to a path" % len(unknown))
                continue
            st["listings_compared"] += 1
            st["listed_cases"] += len(listed)
            if mode == "include":
                first_listed = listed
            from collections import Counter
            cl, cr = Counter(p for p in listed if p not in zero_budget), Counter(p for p in ran if p not in zero_budget)
            if cl != cr:
                out.violation("C14:terse_differs_from_real_calls:macro_path",
                              "[generated crate %s, %s] the terse listing names %d cases, `--test` with the same flags really called %d: listed but not called %s, called but not listed / called again %s" % (
                                  P.crate, " ".join(flags) or "default", len(listed), len(ran), sorted((cl - cr).elements())[:4], sorted((cr - cl).elements())[:4]),
                              dict(payload, cli=flags, stdout=so2[-3000:]))
        # round trip on a few listed paths (unique ones)
        if first_listed:
            uniq = [p for p in first_listed if first_listed.count(p) == 1 and p not in zero_budget]
            for path in rng.sample(uniq, min(len(uniq), 4 if tier == "quick" else 24)):
                rc3, so3, se3 = run_bin(exe, ["--test", "--include-ignored", "--threads", "1", "--exact", path])
                out.evaluations += 1
                if rc3 != 0:
                    out.inconclusive_shard("round trip exited %s" % rc3)
                    continue
                _, ran, unknown = executed_paths(so3)
                st["roundtrips"] += 1
                if unknown or ran != [path]:
                    out.violation("C14:roundtrip_runs_other_case:macro_path", "[generated crate %s] --exact %r (a listed path) really called %s" % (P.crate, path, (ran + [str(u) for u in unknown])[:4]),
                                  dict(payload, cli=["--exact", path], stdout=so3[-3000:]))
    return st


def check(prop, tier, seed, out):
    programs, d, target, rc, log, rng = prepare(tier, seed)
    nprog = len(programs)
    agg = {}
    if rc != 0:
        # The generated programs are valid (they build against the pinned tree). A compiler error located in a generated file, or
        # raised while expanding / evaluating divan's macros for it, means a written item cannot be registered at all.
        import re as _re
        rejected = _re.search(r"(src/bin/[qt]\d+p\d+\.rs|could not compile `vgen`)", log) and "error" in log and "could not compile `divan" not in log
        if rejected and prop == "C12":
            m = _re.search(r"error(\[E\d+\])?: ([^\n]*)", log)
            first = m.group(2) if m else "compile error"
            out.evaluations += 1
            out.violation("C12:generated_program_rejected", "a generated program using only documented attribute forms no longer compiles: %s" % first[:300],
                          {"engine": "generated-crate", "log": log[-4000:]})
            return
        out.inconclusive_shard("generated crate failed to build: %s" % log[-1500:].replace("\n", " | "))
        out.require("crate_built", 0, 1)
        return
    for P in programs:
        exe = os.path.join(target, "debug", P.crate)
        judge_program(prop, P, exe, rng, tier, out, agg, "dev")
        if len(out.samples) < 3:
            out.add_sample({"program": P.crate, "benches": len(P.spec.benches), "groups": len(P.spec.groups), "source_head": P.source[len(progen.PRELUDE):][:600]})
    variants = [("cgu1-O3", True, "-Ccodegen-units=1")] if tier == "quick" else [("cgu1-O3", True, "-Ccodegen-units=1"), ("cgu16-O0", False, "-Ccodegen-units=16")]
    if prop == "C12":
        # the same programs under other codegen settings: the registry must not depend on link / constructor order
        for label, release, flags in variants:
            t2 = os.path.join(build.BUILD, "gen-target-" + label + build._suffix())
            rc, log = cargo_build(d, t2, release=release, rustflags=flags)
            if rc != 0:
                out.inconclusive_shard("variant %s failed to build" % label)
                continue
            for P in programs[: (2 if tier == "quick" else len(programs))]:
                exe = os.path.join(t2, "release" if release else "debug", P.crate)
                judge_program(prop, P, exe, rng, "quick", out, agg, label)
    if prop == "C12":
        # registration from several threads at once (synthetic registries: the macros' constructors cannot be made to overlap)
        from . import treecheck
        treecheck.concurrent_use_slice(prop, tier, seed, out)
    out.extra["observed"] = agg
    out.extra["programs"] = nprog
    out.rule = ("randomly generated benchmark crates compiled through the attribute macros: module trees of depth <= 4, groups with and without custom names, "
                "plain / Bencher / args (array, const slice, range, &str, Vec<String>, Debug-only enum, f64, empty) / types / consts literal and external (up to "
                "the 20-element cap) / types x consts / types + args, ignore, name, raw identifiers, nested fns, extern ABIs, every option syntax; distinct = "
                "distinct (program, codegen variant, command line) triples")
    out.assumptions += ["link / constructor order can only be varied through codegen units and optimisation level, not permuted freely",
                        "expected registry = what the generator wrote (module path, names, line/column of the attribute, options, instantiation shape)"]
    out.require("entries_expected", agg.get("entries_expected", 0), 20)
    if prop == "C12":
        out.require("cases_expected", agg.get("cases_expected", 0), 30)


def replay(prop, rp, out):
    check(prop, rp.get("tier", "quick"), rp.get("seed", 1), out)
