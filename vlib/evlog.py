"""Reader for the harness drivers' output: RUN blocks with report + event log."""

GEN, COUNT, CALL_BEGIN, CALL_END, DROP_OUT, DROP_IN, TS_START, TS_END, ALLOC_OP, POINT = range(1, 11)
TASK_BEGIN, TASK_END, BCAST_CALL, BCAST_RETURN, THREAD_EXIT, PANIC_INJECTED, RUN_BEGIN, RUN_END = range(11, 19)
ONLINE_VIOLATION, NOTE = 19, 20

KIND_NAMES = ["?", "gen", "count", "call_begin", "call_end", "drop_out", "drop_in", "ts_start", "ts_end",
              "alloc_op", "point", "task_begin", "task_end", "bcast_call", "bcast_return", "thread_exit",
              "panic_injected", "run_begin", "run_end", "online_violation", "note"]


class Ev:
    __slots__ = ("seq", "tid", "k", "kind", "a", "b", "c")

    def __init__(self, seq, tid, k, kind, a, b, c):
        self.seq, self.tid, self.k, self.kind, self.a, self.b, self.c = seq, tid, k, kind, a, b, c

    def __repr__(self):
        return "#%d t%d/k%d %s(%d,%d,%d)" % (self.seq, self.tid, self.k, KIND_NAMES[self.kind] if self.kind < len(KIND_NAMES) else self.kind, self.a, self.b, self.c)

    def brief(self):
        return [self.seq, self.tid, self.k, KIND_NAMES[self.kind] if self.kind < len(KIND_NAMES) else self.kind, self.a, self.b, self.c]


def parse_cfg(line):
    d = {}
    for tok in line.split():
        if "=" in tok:
            k, v = tok.split("=", 1)
            d[k] = v
    return d


class Run:
    def __init__(self):
        self.id = None
        self.status = None      # 'ok' | 'panic'
        self.msg = ""
        self.cfg_line = ""
        self.cfg = {}
        self.sandwich = 0
        self.report = None      # dict
        self.events = []
        self.overflow = False
        self.complete = False
        self.extra = []         # unparsed lines (driver specific)

    def ci(self, key, default):
        v = self.cfg.get(key)
        return int(v) if v is not None else default

    def cl(self, key):
        v = self.cfg.get(key, "")
        return [int(x) for x in v.split(",") if x != ""]


def _ints(s):
    s = s.strip()
    return [int(x) for x in s.split(",")] if s else []


def _floats(s):
    out = []
    for x in s.strip().split(","):
        if x == "NaN":
            out.append(float("nan"))
        elif x == "inf":
            out.append(float("inf"))
        elif x == "-inf":
            out.append(float("-inf"))
        else:
            out.append(float(x))
    return out


def parse_runs(text):
    """Parses driver stdout into a list of Run objects and a 'done' flag."""
    runs = []
    cur = None
    done = False
    for line in text.split("\n"):
        if not line:
            continue
        tag = line[0]
        if tag == "E" and line[1] == " ":
            p = line.split(" ")
            cur.events.append(Ev(int(p[1]), int(p[2]), int(p[3]), int(p[4]), int(p[5]), int(p[6]), int(p[7])))
            continue
        if line.startswith("RUN "):
            cur = Run()
            p = line.split(" ", 3)
            cur.id = p[1]
            cur.status = p[2]
            cur.msg = p[3] if len(p) > 3 else ""
            runs.append(cur)
        elif cur is None:
            if line.startswith("DONE"):
                done = True
            continue
        elif line.startswith("CFG "):
            cur.cfg_line = line[4:]
            cur.cfg = parse_cfg(cur.cfg_line)
        elif line.startswith("SANDWICH "):
            cur.sandwich = int(line.split()[1])
        elif line.startswith("R "):
            d = parse_cfg(line[2:])
            cur.report = {
                "did_run": d["did_run"] == "1", "sample_size": int(d["sample_size"]), "cap": int(d["cap"]),
                "uses": [x == "1" for x in d["uses"].split(",")], "samples": [], "alloc": {}, "counters": [[], [], [], []],
                "stats": None,
            }
        elif line.startswith("S "):
            cur.report["samples"] = _ints(line[2:])
        elif line == "S":
            cur.report["samples"] = []
        elif line.startswith("A "):
            p = line.split(" ")
            t = _ints(p[2])
            cur.report["alloc"][int(p[1])] = {
                "grow": (t[0], t[1]), "shrink": (t[2], t[3]), "alloc": (t[4], t[5]), "dealloc": (t[6], t[7]),
                "cur_count": int(p[3]), "max_count": int(p[4]), "cur_size": int(p[5]), "max_size": int(p[6]),
            }
        elif line.startswith("C "):
            p = line.split(" ", 2)
            cur.report["counters"][int(p[1])] = _ints(p[2]) if len(p) > 2 else []
        elif line.startswith("ST "):
            p = line.split(" ", 2)
            if p[1] == "none":
                cur.report["stats"] = None
            elif p[1] == "panic":
                cur.report["stats"] = {"panic": p[2] if len(p) > 2 else ""}
            else:
                q = line.split(" ")
                cur.report["stats"] = {"sample_count": int(q[2]), "iter_count": int(q[3]), "ac": {}, "as": {}, "counts": {}}
        elif line.startswith("STT "):
            cur.report["stats"]["time"] = _ints(line[4:])
        elif line.startswith("STMC "):
            cur.report["stats"]["max_count"] = _floats(line[5:])
        elif line.startswith("STMS "):
            cur.report["stats"]["max_size"] = _floats(line[5:])
        elif line.startswith("STAC "):
            p = line.split(" ")
            cur.report["stats"]["ac"][int(p[1])] = _floats(p[2])
        elif line.startswith("STAS "):
            p = line.split(" ")
            cur.report["stats"]["as"][int(p[1])] = _floats(p[2])
        elif line.startswith("STC "):
            p = line.split(" ")
            cur.report["stats"]["counts"][int(p[1])] = None if p[2] == "-" else _ints(p[2])
        elif line == "OVERFLOW":
            cur.overflow = True
        elif line.startswith("END "):
            cur.complete = True
        elif line.startswith("DONE"):
            done = True
        else:
            cur.extra.append(line)
    return runs, done
