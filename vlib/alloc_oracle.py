"""Oracles for the AllocProfiler drivers: C09 (transparent forwarding) and C10 (exact tallies)."""
from . import evlog as E
from .loop_oracle import V, model_tally, tally_matches

OPN = {0: "alloc", 1: "alloc_zeroed", 2: "realloc", 3: "dealloc"}


class Model:
    """15-line reference model of a thread's tally since its last clear."""

    def __init__(self):
        self.reset()

    def reset(self):
        self.alloc = [0, 0]
        self.dealloc = [0, 0]
        self.grow = [0, 0]
        self.shrink = [0, 0]
        self.eq = 0
        self.cur_c = self.cur_s = self.max_c = self.max_s = 0

    def apply(self, op, size, new):
        if op in (0, 1):
            self.alloc[0] += 1; self.alloc[1] += size; self.cur_c += 1; self.cur_s += size
        elif op == 3:
            self.dealloc[0] += 1; self.dealloc[1] += size; self.cur_c -= 1; self.cur_s -= size
        elif op == 2:
            if new > size:
                self.grow[0] += 1; self.grow[1] += new - size
            elif new < size:
                self.shrink[0] += 1; self.shrink[1] += size - new
            else:
                self.eq += 1
            self.cur_s += new - size
        self.max_c = max(self.max_c, self.cur_c)
        self.max_s = max(self.max_s, self.cur_s)

    def matches(self, t):
        """t = [g_c,g_s,s_c,s_s,a_c,a_s,d_c,d_s,cur_c,max_c,cur_s,max_s]"""
        if [t[4], t[5]] != self.alloc or [t[6], t[7]] != self.dealloc:
            return False
        if t[1] != self.grow[1] or t[3] != self.shrink[1]:
            return False
        if not (self.grow[0] <= t[0] <= self.grow[0] + self.eq and self.shrink[0] <= t[2] <= self.shrink[0] + self.eq
                and t[0] + t[2] == self.grow[0] + self.shrink[0] + self.eq):
            return False
        return t[9] == self.max_c and t[11] == self.max_s

    def describe(self):
        return "alloc=%s dealloc=%s grow=%s shrink=%s eq_realloc=%d max_count=%d max_size=%d" % (
            self.alloc, self.dealloc, self.grow, self.shrink, self.eq, self.max_c, self.max_s)


def check_direct(run):
    """Judges one allocdrv run. Returns (violations, stats)."""
    out = []
    models = {}
    stats = {"ops": 0, "null_returns": 0, "threads": 0, "max_size_log2": 0, "eq_reallocs": 0, "negative_live": 0, "clears": 0,
             "distinct_op_shapes": set()}
    for ln in run.extra:
        if not ln.startswith("O "):
            continue
        left, mid, right = ln[2:].split(" | ")
        thread, op, size, align, ptr, new, want, got = [int(x) for x in left.split()]
        ic, iop, isize, ialign, iptr, inew = [int(x) for x in mid.split()]
        rp = right.split()
        cleared = rp[0] == "C"
        tally = None if rp[1] == "none" else [int(x) for x in rp[1:]]
        m = models.get(thread)
        if m is None:
            m = models[thread] = Model()
            stats["threads"] += 1
        if op == 8:
            m.reset()
            if tally is None or any(tally):
                out.append(V("C10", "not_zero_after_clear", "thread %d: tally %s right after clearing" % (thread, tally)))
            continue
        stats["ops"] += 1
        stats["distinct_op_shapes"].add((op, min(size.bit_length(), 41), align.bit_length(), got == 0, new == size))
        stats["max_size_log2"] = max(stats["max_size_log2"], size.bit_length(), new.bit_length())
        # C09: exactly one inner call, identical arguments, result passed through
        if ic != 1:
            out.append(V("C09", "inner_call_count", "%s(size=%d, align=%d): %d calls reached the wrapped allocator" % (OPN[op], size, align, ic)))
        elif (iop, isize, ialign) != (op, size, align) or (op in (2, 3) and iptr != ptr) or (op == 2 and inew != new):
            out.append(V("C09", "arguments_changed", "%s(size=%d, align=%d, ptr=%#x, new=%d) reached the wrapped allocator as %s(size=%d, align=%d, ptr=%#x, new=%d)" % (
                OPN[op], size, align, ptr, new, OPN.get(iop, iop), isize, ialign, iptr, inew)))
        if op != 3 and got != want:
            out.append(V("C09", "result_changed", "%s returned %#x, the wrapped allocator returned %#x" % (OPN[op], got, want)))
        if op != 3 and want == 0:
            stats["null_returns"] += 1
        # C10
        if cleared:
            m.reset()
            stats["clears"] += 1
        m.apply(op, size, new)
        if op == 2 and new == size:
            stats["eq_reallocs"] += 1
        if m.cur_c < 0 or m.cur_s < 0:
            stats["negative_live"] += 1
        if tally is None:
            out.append(V("C10", "no_tally", "thread %d has no tally" % thread))
        elif not m.matches(tally):
            out.append(V("C10", "tally_mismatch", "thread %d after %s(size=%d,new=%d): tally %s, model %s" % (thread, OPN[op], size, new, tally, m.describe())))
            # resynchronise to avoid a cascade: stop judging this thread
            models[thread] = _Dead()
    stats["distinct_op_shapes"] = len(stats["distinct_op_shapes"])
    return out, stats


class _Dead(Model):
    def matches(self, t):
        return True


def check_sandwich(run):
    out = []
    stats = {"outer_calls": 0, "first_on_thread": 0, "in_tls_dtor": 0, "threads_compared": 0, "ops_in_traffic": 0}
    sw = {}
    tt = []
    for ln in run.extra:
        if ln.startswith("SW "):
            sw = dict(kv.split("=") for kv in ln[3:].split())
        elif ln.startswith("TT "):
            tt.append(ln.split()[1:])
    if sw:
        stats["outer_calls"] = int(sw["outer"])
        stats["first_on_thread"] = int(sw["first_on_thread"])
        stats["in_tls_dtor"] = int(sw["in_tls_dtor"])
        stats["max_depth"] = int(sw["max_depth"])
        if int(sw["violations"]) != 0:
            codes = {1: "inner_call_count", 2: "arguments_changed", 3: "result_changed", 4: "reentry", 5: "inner_call_without_request"}
            seen = set()
            for ev in run.events:
                if ev.kind == E.ONLINE_VIOLATION and ev.a not in seen:
                    seen.add(ev.a)
                    out.append(V("C09", codes.get(ev.a, "online_%d" % ev.a), "sandwich monitor: %s (op=%d, detail=%d) on thread %d; %s violations in total" % (
                        codes.get(ev.a, ev.a), ev.b, ev.c, ev.tid, sw["violations"]), [ev]))
            if not seen:
                out.append(V("C09", "sandwich_violation", "sandwich monitor counted %s violations (first code %s)" % (sw["violations"], sw["first_code"])))
        if int(sw["max_depth"]) > 1:
            out.append(V("C09", "reentry", "allocator re-entered: depth %s" % sw["max_depth"]))
        if int(sw["outer"]) != int(sw["inner"]):
            out.append(V("C09", "call_count_mismatch", "%s outer requests, %s inner calls" % (sw["outer"], sw["inner"])))
    # C10: real traffic, model fed by the outer layer's events
    by_tid = {}
    for ev in run.events:
        by_tid.setdefault(ev.tid, []).append(ev)
    # C09: while the profiler's per-thread state is created / cleared / read, no allocator request is issued on that thread
    measuring = 0
    for tid, evs in by_tid.items():
        on = False
        for ev in evs:
            if ev.kind == E.NOTE and ev.a == 12:
                on = True
                measuring += 1
            elif ev.kind == E.NOTE and ev.a == 13:
                on = False
            elif on and ev.kind == E.ALLOC_OP:
                out.append(V("C09", "profiler_issued_own_request", "thread %d: an allocator request (%s, size %d) was issued while the profiler set up / read the thread's tally: the wrapper allocates through the allocator it wraps" % (
                    tid, OPN.get(ev.a & 0xFF, ev.a & 0xFF), ev.b), [ev]))
                break
    stats["measuring_sections"] = measuring
    for rec in tt:
        seed, tid = int(rec[0]), int(rec[1])
        if rec[2] == "none":
            out.append(V("C10", "no_tally", "thread %d has no tally" % tid))
            continue
        t = [int(x) for x in rec[2:]]
        evs = by_tid.get(tid, [])
        inside = []
        on = False
        for ev in evs:
            if ev.kind == E.NOTE and ev.a == 10:
                on = True
            elif ev.kind == E.NOTE and ev.a == 11:
                on = False
            elif on and ev.kind == E.ALLOC_OP:
                inside.append(ev)
        m = Model()
        for ev in inside:
            m.apply(ev.a & 0xFF, ev.b, ev.c)
        stats["threads_compared"] += 1
        stats["ops_in_traffic"] += len(inside)
        if not m.matches(t):
            out.append(V("C10", "tally_mismatch_real_traffic", "thread %d: tally %s, model over %d logged operations %s" % (tid, t, len(inside), m.describe())))
    return out, stats
