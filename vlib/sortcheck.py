"""Pure level of C16 (natural_cmp, cmp_bench_arg_names: model agreement + total-order axioms) and Miri probes
of the unsafe helpers behind C13 / C16 / C17 (SplitVec, get_unchecked tokenizer, ErasedArgsSlice)."""
import random
import re

from . import build, models, purecheck

ALPHA = list("abzAZ") + list("0123456789") * 2 + list("-_.<> ") + ["é", "ß", "日", "00", "01", "10", "007"]


BOUNDARY = [2 ** 31, 2 ** 32, 2 ** 63, 2 ** 64, 10 ** 19, 10 ** 20, 2 ** 127, 2 ** 128, 10 ** 38, 10 ** 39]


def long_run(rng):
    """Digit run near a machine-integer boundary (or of 1..45 digits), optionally zero-padded."""
    if rng.random() < 0.6:
        v = rng.choice(BOUNDARY) + rng.choice([-2, -1, 0, 1, 2, 10, -10]) * rng.choice([1, 1, 10 ** 3])
        if rng.random() < 0.3:
            v = v * rng.choice([9, 10, 11, 100]) + rng.randrange(10)
    else:
        nd = rng.choice([1, 5, 18, 19, 20, 21, 22, 30, 38, 39, 40, 45])
        v = rng.randrange(10 ** (nd - 1), 10 ** nd)
    return "0" * rng.choice([0, 0, 1, 2, 3, 5]) + str(max(v, 0))


def rand_long_name(rng):
    return rng.choice(["", "", "blk_", "a", "é", "v1."]) + long_run(rng) + rng.choice(["", "", "x", ">", ".0"])


def related_name(rng, a):
    """A name that differs from `a` only inside its first digit run (padding, value +-1, one digit more or less)."""
    m = re.search(r"[0-9]+", a)
    if not m:
        return a + rng.choice(["0", "1"])
    run = m.group(0)
    k = rng.randrange(6)
    if k == 0:
        new = "0" * rng.randrange(1, 4) + run
    elif k == 1:
        new = run.lstrip("0") or "0"
    elif k == 2:
        new = "0" * (len(run) - len(run.lstrip("0"))) + str(int(run) + rng.choice([1, -1, 10]) if int(run) > 0 else 1)
    elif k == 3:
        new = run + rng.choice("0123456789")
    elif k == 4:
        new = "0" * rng.randrange(0, 4) + (run.lstrip("0")[:-1] or "0")
    else:
        new = "0" * rng.randrange(0, 4) + str(rng.choice(BOUNDARY) + rng.choice([-1, 0, 1]))
    return a[:m.start()] + new + a[m.end():]


def rand_name(rng):
    k = rng.randrange(8)
    if k >= 6:
        return rand_long_name(rng)
    if k == 0:
        return rng.choice(["a", "x", "A<", "v1."]) + str(rng.choice([0, 1, 2, 9, 10, 11, 99, 100, 1000])) + rng.choice(["", ">", "b", ".5"])
    if k == 1:
        return rng.choice(["", "a"]) + rng.choice(["0", "00", "000"]) * rng.randrange(0, 2) + str(rng.randrange(0, 200)) + rng.choice(["", "x", "x1", "x01"])
    if k == 2:
        return "".join(rng.choice(ALPHA) for _ in range(rng.randrange(0, 9)))
    if k == 3:
        return str(rng.randrange(10 ** rng.randrange(1, 45)))
    if k == 4:
        return "".join(rng.choice("ab01") for _ in range(rng.randrange(1, 7)))
    return rng.choice(["", "a", "1", "01", "1a", "a1", "a01", "a1b2", "a1b10", "é1", "é01"])


def rand_arg(rng):
    k = rng.randrange(10)
    if k < 3:
        return str(rng.randrange(-120, 120))
    if k == 3:
        return rng.choice(["0", "00", "-0", "+5", "007", "7", "10", "9", "100", "-10", "-9"])
    if k == 4:
        return str(rng.choice([2 ** 64, 2 ** 127, 2 ** 127 - 1, -2 ** 127, 2 ** 128 - 1, 2 ** 128, 10 ** 39, -10 ** 39]))
    if k == 5:
        return rng.choice(["1.5", "0.25", "-2.5", "1e3", "1E3", "10.0", "10", ".5", "5.", "inf", "-inf", "NaN", "nan", "1e400", "-0.0"])
    if k == 6:
        return repr(round(rng.uniform(-100, 100), rng.randrange(0, 4)))
    if k == 7:
        return rand_name(rng)
    return rng.choice(["abc", "x10", "x9", "", " 5", "5 ", "1_000", "0x10", "--1", "+", "-", "e5", "1e", "é"])


def hexs(s):
    return s.encode("utf-8").hex()


def pure_level(tier, seed, out):
    bins = build.build("release", ["puredrv"])
    exe = bins["puredrv"]
    rng = random.Random(seed * 977 + 16)
    npairs = 20000 if tier == "quick" else 600000
    qs, meta = [], []
    for _ in range(npairs // 3):
        a, b, c = rand_name(rng), rand_name(rng), rand_name(rng)
        r = rng.random()
        if r < 0.25:
            b = a[:rng.randrange(len(a) + 1)] + rng.choice(["", "0", "1", "x"])
        elif r < 0.5:
            b = related_name(rng, a)
            if rng.random() < 0.5:
                c = related_name(rng, b)
        for x, y in ((a, b), (b, a), (b, c), (a, c)):
            qs.append("N %s %s" % (hexs(x), hexs(y)))
            meta.append((x, y))
    ans = purecheck.ask(exe, qs)
    stats = {"natural_pairs": len(qs), "natural_triples": 0, "arg_lists": 0, "arg_pairs": 0, "sorts": 0}
    res = {}
    for (x, y), got in zip(meta, ans):
        if got.startswith("PANIC"):
            out.violation("C16:natural_cmp_panic", "natural_cmp(%r, %r) panicked: %s" % (x, y, got), {"engine": "release", "bin": "puredrv", "query": "N %s %s" % (hexs(x), hexs(y))})
            continue
        g = int(got)
        res[(x, y)] = g
        exp = models.natural_cmp(x, y)
        if g != exp:
            out.violation("C16:natural_order", "natural_cmp(%r, %r) = %d, digit runs by value / bytewise otherwise gives %d" % (x, y, g, exp),
                          {"engine": "release", "bin": "puredrv", "query": "N %s %s" % (hexs(x), hexs(y))})
    for i in range(0, len(meta), 4):
        a, b = meta[i]
        _, c = meta[i + 2]
        stats["natural_triples"] += 1
        ab, ba, bc, ac = res.get((a, b)), res.get((b, a)), res.get((b, c)), res.get((a, c))
        if None in (ab, ba, bc, ac):
            continue
        if ab != -ba:
            out.violation("C16:natural_antisymmetry", "natural_cmp(%r,%r)=%d but natural_cmp(%r,%r)=%d" % (a, b, ab, b, a, ba), {"engine": "release", "bin": "puredrv"})
        if ab <= 0 and bc <= 0 and ac > 0:
            out.violation("C16:natural_transitivity", "%r <= %r <= %r but %r > %r" % (a, b, c, a, c), {"engine": "release", "bin": "puredrv"})
    # argument comparator: every ordered pair of every list under each attribute + whole-list sorts
    nlists = 300 if tier == "quick" else 8000
    qs, meta = [], []
    for _ in range(nlists):
        n = rng.randrange(1, 9)
        names = []
        while len(names) < n:
            a = rand_arg(rng)
            if names and rng.random() < 0.2:
                a = related_name(rng, rng.choice(names))
            if a not in names and " " not in a:
                names.append(a)
        hx = " ".join(hexs(x) if x else "" for x in names)
        if any(x == "" for x in names):
            continue
        for attr in range(3):
            for i in range(n):
                for j in range(n):
                    qs.append("A %d %d %d %s" % (attr, i, j, hx))
                    meta.append(("A", attr, i, j, names))
            for rev in (0, 1):
                qs.append("S %d %d %s" % (attr, rev, hx))
                meta.append(("S", attr, rev, names))
    ans = purecheck.ask(exe, qs)
    seen_lists = set()
    for m, got, q in zip(meta, ans, qs):
        if got.startswith("PANIC"):
            out.violation("C16:arg_cmp_panic", "comparing / sorting arguments %s panicked: %s" % (m[-1], got[:200]), {"engine": "release", "bin": "puredrv", "query": q})
            continue
        if m[0] == "A":
            _, attr, i, j, names = m
            stats["arg_pairs"] += 1
            seen_lists.add(tuple(names))
            exp = models.arg_cmp(attr, names, i, j)
            if int(got) != exp:
                kind = "name" if attr == 1 else ("kind" if attr == 0 else "location")
                out.violation("C16:arg_order:%s" % classify_args(names[i], names[j]),
                              "arguments %r vs %r (positions %d, %d) under sort=%s compare as %s, numbers by value / natural order / declaration order gives %d" % (
                                  names[i], names[j], i, j, kind, got, exp), {"engine": "release", "bin": "puredrv", "query": q})
        else:
            _, attr, rev, names = m
            stats["sorts"] += 1
            perm = [int(x) for x in got.split(",")] if got else []
            if sorted(perm) != list(range(len(names))):
                out.violation("C16:sort_not_permutation", "sorting %s returned %s" % (names, perm), {"engine": "release", "bin": "puredrv", "query": q})
                continue
            sign = -1 if rev else 1
            for x, y in zip(perm, perm[1:]):
                if models.arg_cmp(attr, names, x, y) * sign > 0:
                    out.violation("C16:args_sorted_wrongly:%s" % classify_args(names[x], names[y]),
                                  "sorting %s by attribute %d (reverse=%d) puts %r before %r" % (names, attr, rev, names[x], names[y]),
                                  {"engine": "release", "bin": "puredrv", "query": q})
                    break
    stats["arg_lists"] = len(seen_lists)
    out.evaluations += stats["natural_pairs"] + stats["arg_pairs"] + stats["sorts"]
    out.extra["pure_level"] = stats
    out.require("natural_pairs", stats["natural_pairs"], 10000)
    out.require("arg_pairs", stats["arg_pairs"], 5000)
    # Miri: the get_unchecked tokenizer and the SplitVec behind the filters
    mq = ["N %s %s" % (hexs(a), hexs(b)) for a, b in [("A<4>", "A<16>"), ("", "0"), ("é01x", "é1"), ("a", "a0"), ("007", "7")]]
    mq += ["M %s 3 1 1 %s 0 0 %s 1 0 %s" % (hexs("a::b1"), hexs("b[0-9]"), hexs("a::b2"), hexs("zz")),
           "M %s 2 0 1 %s 1 1 %s" % (hexs("x"), hexs("x"), hexs("y|x")),
           "S 1 0 %s" % " ".join(hexs(x) for x in ["10", "9", "-3", "abc", "2.5"])]
    purecheck.miri_pure("C16", mq, out)


def classify_args(a, b):
    ia, ib = models.rust_int(a) is not None, models.rust_int(b) is not None
    fa, fb = models.rust_float(a) is not None, models.rust_float(b) is not None
    if ia and ib:
        if models.rust_int(a) == 0 and models.rust_int(b) == 0 and a.startswith("-") != b.startswith("-"):
            return "negative_zero_vs_zero"
        return "two_integers"
    if (ia or fa) and (ib or fb):
        return "two_numbers"
    if ia or ib or fa or fb:
        return "number_vs_text"
    return "two_texts"


def args_probe_miri(out):
    """ErasedArgsSlice (from_raw_parts, zeroed ZST closure, slice_ptr_index) under Miri and natively."""
    bins = build.build("release", ["puredrv"])
    qs = ["R i64", "R strslice", "R string", "R zst", "R empty", "R chars", "R revstr", "R display"]
    ans = purecheck.ask(bins["puredrv"], qs)
    for q, a in zip(qs, ans):
        if "match=1" not in a:
            out.violation("C17:args_probe", "BenchArgs probe %s: %s" % (q, a), {"engine": "release", "bin": "puredrv", "query": q})
    m = purecheck.miri_pure("C17", qs, out)
    if m:
        for q, a in zip(qs, m):
            if "match=1" not in a:
                out.violation("C17:args_probe_miri", "BenchArgs probe under Miri %s: %s" % (q, a), {"engine": "miri", "bin": "puredrv", "query": q})
