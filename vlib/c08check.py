"""C08: threads of a parallel benchmark enter and leave timed sections together; panics do not hang."""
import os
from concurrent.futures import ThreadPoolExecutor

from . import build, deadlock, evlog, loopcheck, loopgen, runner, sanit
from . import loop_oracle as LO

PHASES = ["gen", "count", "call", "drop_out", "drop_in"]


def panic_signature(cfgline):
    c = evlog.parse_cfg(cfgline)
    phase, thread, _index = [int(x) for x in c["panic"].split(",")]
    T = int(c.get("T", 1))
    subset = "all" if thread == 255 else "strict_subset"
    # does a barrier wait of the round still lie ahead of the panicking phase?
    entry = int(c.get("entry", 0))
    effective_phase = PHASES[phase]
    if entry in (2, 3) and phase == 4:
        effective_phase = "call"      # a by-value input is consumed (dropped) inside the call
    before_barrier = effective_phase in ("gen", "count", "call")
    return effective_phase, subset, before_barrier, T


def run_panic_matrix(lines, out, jobs=8, timeout=60):
    bins = build.build("native", ["loopdrv"])
    exe = bins["loopdrv"]
    seen = {"panic_observed": 0, "deadlock": 0, "phases": set(), "subsets": set()}

    def one(cfgline):
        return cfgline, deadlock.watch([exe, "--line", cfgline], timeout=timeout)

    with ThreadPoolExecutor(max_workers=jobs) as ex:
        results = list(ex.map(one, lines))
    for cfgline, res in results:
        phase, subset, before_barrier, T = panic_signature(cfgline)
        out.evaluations += 1
        if res.verdict == "watchdog":
            out.inconclusive_shard("panic scenario hit the wall-clock watchdog without quiescence: %s" % cfgline)
            continue
        if res.verdict == "deadlock":
            seen["deadlock"] += 1
            sig = "C08:hang:panic_in_%s:%s:%s" % (phase, subset, "barrier_wait_ahead" if before_barrier else "no_barrier_ahead")
            out.violation(sig, "T=%d run hangs forever (all %d threads in untimed futex waits) after a panic in phase %s on %s of the threads" % (
                T, res.nthreads, phase, "every one" if subset == "all" else "a strict subset"),
                {"engine": "native+deadlock-detector", "bin": "loopdrv", "cfg": cfgline, "stacks": res.stacks[:120]})
            out.distinct.add(("panic", phase, subset, T, "deadlock"))
            continue
        runs, done = evlog.parse_runs(res.stdout)
        if res.returncode != 0 or not runs or not runs[0].complete:
            out.inconclusive_shard("panic scenario did not complete: rc=%s cfg=%s stderr=%s" % (res.returncode, cfgline, res.stderr[-200:].replace("\n", " | ")))
            continue
        run = runs[0]
        injected = any(ev.kind == evlog.PANIC_INJECTED for ev in run.events)
        if not injected:
            # the plan never triggered (e.g. index beyond what ran): nothing to judge
            continue
        out.distinct.add(("panic", phase, subset, T, run.status))
        seen["phases"].add(phase)
        seen["subsets"].add(subset)
        if run.status != "panic":
            out.violation("C08:panic_swallowed:%s:%s" % (phase, subset),
                          "a thread panicked in phase %s but the calling thread saw no panic" % phase,
                          {"engine": "native", "bin": "loopdrv", "cfg": cfgline})
        else:
            seen["panic_observed"] += 1
        # never twice / never after drop also holds here (C01's fault clause)
        an = LO.Analysis(run)
        vs, _ = LO.check_c01(an)
        for v in vs:
            out.violation("C08:" + v.code, "in a panic scenario: " + v.msg, {"engine": "native", "bin": "loopdrv", "cfg": cfgline, "violation": v.to_json()})
        # the overlap clause in the round that unwinds: no thread drops values inside another thread's timed section
        vs, info = LO.check_c08_panic_overlap(an)
        seen["drop_window_pairs"] = seen.get("drop_window_pairs", 0) + info.get("panic_round_drop_window_pairs", 0)
        for v in vs:
            out.violation("C08:" + v.code + ":panic_in_" + phase, "in a panic scenario: " + v.msg,
                          {"engine": "native", "bin": "loopdrv", "cfg": cfgline, "violation": v.to_json()})
    seen["phases"] = sorted(seen["phases"])
    seen["subsets"] = sorted(seen["subsets"])
    return seen


def check(prop, tier, seed, out):
    # 1. ordering + own-allocations oracle under skew and failpoint delays
    lines = loopgen.gen_c08_order(tier, seed)
    shards, agg = loopcheck.run_native("C08", lines, out, checks=[LO.check_c08_order, LO.check_c02_for_c08])
    out.extra["ordering"] = agg
    out.require("rounds_checked", agg.get("rounds_checked", 0), 50)
    out.require("rounds_with_drops", agg.get("rounds_with_drops", 0), 20)
    out.require("rounds_with_clear_points", agg.get("rounds_with_clear_points", 0), 50)
    # 2. panic matrix under the deadlock detector
    plines = loopgen.gen_c08_panic(tier, seed)
    seen = run_panic_matrix(plines, out)
    out.extra["panic_matrix"] = seen
    out.require("panic_scenarios_judged", seen["panic_observed"] + seen["deadlock"], 10)
    # 2b. the start rendezvous through the real runner: one benchmark after another in one process, several thread counts per benchmark
    # (the loop driver above builds a fresh context per run, the runner need not); a phase-order monitor inside the bodies that
    # generate inputs, with the first pool thread's generator made slow
    from . import treecheck
    jobs = [j for j in treecheck.make_jobs("C15", "quick", seed + 800) if j[1].intent.action in ("bench", "test")]
    jobs = jobs[:400 if tier == "quick" else 3000]
    e2e, _, _ = treecheck.run_jobs(prop, jobs, out, want={prop})
    out.extra["end_to_end"] = {"executions": e2e.get("executions", 0), "rounds_judged_on_two_or_more_threads": e2e.get("ord_rounds", 0)}
    out.require("e2e_rounds_on_several_threads", e2e.get("ord_rounds", 0), 10)
    # 3. races: TSan on real threads, Miri on T=2
    sanit.c08_sanitizers(tier, seed, out)
    out.rule = ("(a) multi-thread loopdrv runs with one thread delayed >= 200us in the phase a missing barrier would expose, or seeded "
                "jitter at the barrier failpoints; (b) the (thread, phase, round) panic matrix on T in {2,3}, each scenario in its own "
                "process under the quiescent-deadlock detector; distinct = configuration tuples / (phase, subset, T, outcome)")
    out.assumptions += ["global sequence numbers respect happens-before (single relaxed counter)",
                        "deadlock verdict = every thread in an untimed futex wait with frozen context-switch counters over repeated polls"]


def replay(prop, rp, out):
    r = rp["first"]["replay"]
    cfg = r["cfg"]
    if "panic=" in cfg:
        seen = run_panic_matrix([cfg], out, jobs=1)
        out.extra["panic_matrix"] = seen
    else:
        loopcheck.run_native("C08", [cfg], out, checks=[LO.check_c08_order, LO.check_c02_for_c08], nshards=1)
