"""Expected view of a treedrv run: what must be printed / executed for a spec under an intent."""
import math

from . import models, treegen as TG

PICOS = 10 ** 12


class Intent:
    """What the configuration asks for, independent of how it was passed (CLI / env / builder)."""

    def __init__(self):
        self.action = "test"            # bench | test | list | terse
        self.runner_opts = {}           # sc ss th mt xt sk c0..c3
        self.filters = TG.Filters()
        self.ignore_mode = "no"         # no | include | only
        self.sort_attr = 0              # 0 kind 1 name 2 location
        self.sort_rev = False
        self.binary = False
        self.tsc = True
        self.how = {}                   # field -> 'cli' | 'env' | 'builder' (evidence only)


class ENode:
    """Expected printed node."""

    def __init__(self, name, kind, model=None):
        self.name, self.kind, self.model = name, kind, model      # kind: parent | bench | arg | thread | ignored | empty
        self.children = []
        self.case = None
        self.eff = None
        self.T = None
        self.expect = None     # dict with expected cells etc. (bench action)


def selected_cases(sp, intent):
    roots = TG.build_tree(sp)
    all_cases = TG.cases(roots)
    sel = [c for c in all_cases if intent.filters.selected(c.path())]
    return roots, all_cases, sel


def leaf_ignored(case, intent):
    eff = TG.effective_options(case, intent.runner_opts)
    return bool(eff.get("ig", 0)), eff


def expected_tree(sp, intent):
    """Expected printed forest (unordered among siblings) + expected executions.

    Returns (eroots, executions) where executions is a list of dicts
    {bid, arg, ty, const, T, eff, case} for every (case, thread count) that must run, in no particular order.
    """
    roots, all_cases, sel = selected_cases(sp, intent)
    sel_by_leaf = {}
    for c in sel:
        sel_by_leaf.setdefault(id(c.leaf), []).append(c)
    executions = []

    def build(node, anc):
        here = anc + [node]
        if node.kind == "parent":
            kids = [k for k in (build(c, here) for c in node.children) if k is not None]
            if not kids:
                return None
            e = ENode(node.display, "parent", node)
            e.children = kids
            return e
        cs = sel_by_leaf.get(id(node))
        if not cs:
            return None
        ignored, eff = leaf_ignored(cs[0], intent)
        if not TG.runs_under(intent.ignore_mode, ignored):
            e = ENode(node.display, "ignored", node)
            e.case = cs[0]
            return e
        if intent.action == "list":
            e = ENode(node.display, "empty", node)
            e.case = cs[0]
            return e
        tcs = TG.thread_counts(eff)

        def runs(case, name):
            if len(tcs) == 1:
                e = ENode(name, "bench", node)
                e.case, e.eff, e.T = case, eff, tcs[0]
                executions.append({"case": case, "T": tcs[0], "eff": eff, "node": e})
                return e
            p = ENode(name, "parent", node)
            p.case = case
            for t in tcs:
                e = ENode("t=%d" % t, "bench", node)
                e.case, e.eff, e.T = case, eff, t
                executions.append({"case": case, "T": t, "eff": eff, "node": e})
                p.children.append(e)
            p.ordered = True
            return p

        if node.args is not None:
            p = ENode(node.display, "parent", node)
            p.is_args_parent = True
            for c in cs:
                p.children.append(runs(c, c.arg[1]))
            return p
        return runs(cs[0], node.display)

    eroots = [k for k in (build(r, []) for r in roots) if k is not None]
    return eroots, executions, roots, sel


# ---------------------------------------------------------------------------
# Expected figures of one execution under the virtual clock
# ---------------------------------------------------------------------------

def conv(ticks, freq):
    return 0 if ticks < 0 else (ticks * PICOS) // freq


def simulate_execution(ex, sp, intent):
    """Returns dict: calls_per_thread, threads, samples (list of ps), sample_size, plus expected stats, or None if not predictable."""
    case, T, eff = ex["case"], ex["T"], ex["eff"]
    b = case.leaf.bench
    beh = b.beh
    mode = beh.get("mode", 0)
    freq, delta, q, _base = sp.clock
    effT = 1 if mode == 1 else T
    res = {"effT": effT, "mode": mode, "did_run": mode != 3}
    if mode == 3:
        res.update({"calls": {}, "samples": None})
        return res
    n = eff.get("sc", TG.DEFAULT_SAMPLE_COUNT)
    s = eff.get("ss")
    max_ps = eff["xt"] * 1000 if "xt" in eff else None
    min_ps = eff.get("mt", 0) * 1000
    skip = bool(eff.get("sk", 0))
    if n == 0 or s == 0 or max_ps == 0:
        # a zero budget means the function is not called at all, in test mode too
        res.update({"calls": {}, "samples": None if intent.action == "test" else [], "sample_size": s if s is not None else 0, "zero": True})
        return res
    if intent.action == "test":
        res["calls"] = {k: 1 for k in range(effT)}
        res["samples"] = None
        return res
    cost = lambda j: beh["cost"] + beh.get("step", 0) * (j % beh.get("mod", 1))
    tuned = s is None
    # the smallest non-zero difference two consecutive reads of the virtual clock can show
    precision = conv(q if delta <= q else (delta // q) * q, freq)
    size = 1 if tuned else s
    rem = None if tuned else n
    elapsed = 0
    ticks_since_init = 0
    j = 0
    samples = []
    j0s = []
    rounds = 0
    while True:
        if max_ps is not None and elapsed >= max_ps:
            break
        if (rem if rem is not None else 1) > 0:
            pass
        elif elapsed < min_ps:
            pass
        else:
            break
        charges = size * beh["cost"] if beh.get("step", 0) == 0 else sum(cost(j + i) for i in range(size))
        gen_ticks = size * beh.get("gc", 0) if mode == 2 else 0      # input generation, before the start reading
        j += size
        dur_ticks = charges + delta
        dur = conv(dur_ticks, freq)
        if tuned and rem is None:
            samples = []
            j0s = []
            if precision > 0 and dur // precision <= 100:
                next_size = size * 2
            else:
                next_size = size
                rem = n
        else:
            next_size = size
        rec = dur if dur != 0 else (precision if tuned else 0)
        samples.extend([(rec, size)] * effT)
        j0s.extend([j - size] * effT)
        if rem is not None:
            rem = max(0, rem - effT)
        ticks_since_init += gen_ticks + delta + charges + delta
        if skip:
            elapsed += max(dur, 1000)
        else:
            elapsed = conv(ticks_since_init, freq)
        size = next_size
        rounds += 1
        if rounds > 100000:
            return None
    final_size = samples[-1][1] if samples else size
    durs = [d for (d, sz) in samples if sz == final_size]
    res["calls"] = {k: j for k in range(effT)}
    res["samples"] = durs
    res["sample_j0"] = [j0 for (j0, (d, sz)) in zip(j0s, samples) if sz == final_size]
    res["sample_size"] = final_size
    res["predictable_time"] = (effT == 1) or (max_ps is None and min_ps == 0)
    return res


def expected_stats(durs, s):
    m = len(durs)
    if m == 0:
        return [0, 0, 0, 0]
    srt = sorted(durs)
    fastest, slowest = srt[0] // s, srt[-1] // s
    med = srt[m // 2] // s if m % 2 else ((srt[m // 2 - 1] + srt[m // 2]) // 2) // s
    mean = sum(durs) // (m * s)
    return [fastest, slowest, med, mean]


def effective_counters(ex):
    """kind -> count after Bencher::counter replaced the inherited counter of its own kind."""
    eff = ex["eff"]
    beh = ex["case"].leaf.bench.beh
    out = {}
    for k in range(4):
        if "c%d" % k in eff:
            out[k] = eff["c%d" % k]
    for (k, v) in beh.get("bc", []) or []:
        out[k] = v
    if beh.get("mode") == 4:
        out[3] = 12
    return out
