"""Quiescent-deadlock detector for native runs.

A process is declared deadlocked only when, over several consecutive polls, every one
of its threads sits in an *untimed* futex wait (syscall 202 with a NULL timeout) and
no thread's context-switch counters moved. Nothing inside such a process can ever wake
anything else up, so this is a verdict, not a timeout. A wall-clock watchdog firing
without quiescence is reported as inconclusive.
"""
import os
import subprocess
import time


def _threads(pid):
    try:
        return sorted(os.listdir("/proc/%d/task" % pid))
    except OSError:
        return []


def _read(path):
    try:
        with open(path) as f:
            return f.read()
    except OSError:
        return None


def snapshot(pid):
    """Returns (all_untimed_futex, signature) or (False, None) if unreadable."""
    tids = _threads(pid)
    if not tids:
        return False, None
    sig = []
    all_blocked = True
    for t in tids:
        base = "/proc/%d/task/%s/" % (pid, t)
        sc = _read(base + "syscall")
        st = _read(base + "status")
        if sc is None or st is None:
            return False, None
        parts = sc.split()
        blocked = len(parts) >= 5 and parts[0] == "202" and int(parts[4], 16) == 0
        state = ""
        sw = []
        for ln in st.split("\n"):
            if ln.startswith("State:"):
                state = ln.split()[1]
            elif ln.startswith("voluntary_ctxt_switches") or ln.startswith("nonvoluntary_ctxt_switches"):
                sw.append(ln.split()[-1])
        if state != "S" or not blocked:
            all_blocked = False
        sig.append((t, state, parts[0] if parts else "", tuple(sw)))
    return all_blocked, tuple(sig)


def gdb_stacks(pid, limit=14):
    try:
        p = subprocess.run(["gdb", "-p", str(pid), "-batch", "-ex", "thread apply all bt %d" % limit],
                           stdout=subprocess.PIPE, stderr=subprocess.DEVNULL, timeout=60, text=True)
        keep = [l for l in p.stdout.split("\n") if l.startswith("Thread ") or l.startswith("#")]
        return keep[:200]
    except Exception as e:  # noqa
        return ["<gdb failed: %s>" % e]


class WatchResult:
    def __init__(self):
        self.verdict = None      # 'exited' | 'deadlock' | 'watchdog'
        self.returncode = None
        self.stdout = ""
        self.stderr = ""
        self.stacks = []
        self.nthreads = 0
        self.wall = 0.0


def watch(cmd, timeout=60.0, poll=0.05, stable_polls=4, env=None, grace=0.3):
    """Runs cmd under the detector."""
    res = WatchResult()
    t0 = time.time()
    import tempfile
    with tempfile.TemporaryFile() as fo, tempfile.TemporaryFile() as fe:
        p = subprocess.Popen(cmd, stdout=fo, stderr=fe, env=env)
        last_sig = None
        stable = 0
        while True:
            rc = p.poll()
            if rc is not None:
                res.verdict = "exited"
                res.returncode = rc
                break
            now = time.time()
            if now - t0 > timeout:
                res.verdict = "watchdog"
                res.stacks = gdb_stacks(p.pid)
                p.kill()
                p.wait()
                break
            if now - t0 > grace:
                blocked, sig = snapshot(p.pid)
                if blocked and sig == last_sig:
                    stable += 1
                elif blocked:
                    stable = 1
                else:
                    stable = 0
                last_sig = sig
                if stable >= stable_polls:
                    # confirm once more after a longer pause
                    time.sleep(0.25)
                    blocked2, sig2 = snapshot(p.pid)
                    if blocked2 and sig2 == sig and p.poll() is None:
                        res.verdict = "deadlock"
                        res.nthreads = len(sig)
                        res.stacks = gdb_stacks(p.pid)
                        p.kill()
                        p.wait()
                        break
                    stable = 0
            time.sleep(poll)
        fo.seek(0)
        fe.seek(0)
        res.stdout = fo.read().decode("utf-8", "replace")
        err = fe.read().decode("utf-8", "replace")
        res.stderr = err if len(err) <= 16000 else err[:10000] + "\n...\n" + err[-6000:]
    res.wall = time.time() - t0
    return res
