"""Reference models written from the property statements and the public documentation."""
import re
from fractions import Fraction

PICOS = 10 ** 12

# ---------------------------------------------------------------------------
# C11
# ---------------------------------------------------------------------------


def tsc_duration(b, a, f):
    return 0 if b < a else ((b - a) * PICOS) // f


# ---------------------------------------------------------------------------
# C18: durations (exact integers)
# ---------------------------------------------------------------------------

UNITS = [("ps", 1), ("ns", 10 ** 3), ("µs", 10 ** 6), ("ms", 10 ** 9), ("s", 10 ** 12), ("m", 60 * 10 ** 12),
         ("h", 3600 * 10 ** 12), ("d", 86400 * 10 ** 12)]


def truncated_decimal(num, den, sig=4):
    """num/den >= 0 truncated toward zero to max(0, sig - d) decimals, d = integer digits; no trailing zeros."""
    ip = num // den
    d = len(str(ip))
    k = max(0, sig - d)
    if k == 0:
        return str(ip)
    frac = ((num % den) * 10 ** k) // den
    fs = str(frac).rjust(k, "0").rstrip("0")
    return str(ip) if not fs else "%d.%s" % (ip, fs)


def fmt_duration(picos):
    unit, scale = UNITS[0]
    for u, s in UNITS:
        if s <= picos:
            unit, scale = u, s
    if picos < 1000:
        unit, scale = "ns", 1000
    return "%s %s" % (truncated_decimal(picos, scale), unit)


# ---------------------------------------------------------------------------
# C18: float path (throughput, bytes, plain numbers)
# ---------------------------------------------------------------------------

DEC_PREFIX = ["", "K", "M", "G", "T", "P"]
BIN_PREFIX = ["", "Ki", "Mi", "Gi", "Ti", "Pi"]
KIND_SUFFIX = {0: "B/s", 1: "char/s", 2: "Hz", 3: "item/s"}
NUM_RE = re.compile(r"^[0-9]+(\.[0-9]+)?$")
EPS = Fraction(1, 10 ** 11)


def parse_scaled(text, suffix, binary):
    """Splits '<num> <prefix><suffix>' -> (num_text, exponent index) or None."""
    if " " not in text:
        return None
    num, unit = text.split(" ", 1)
    if not unit.endswith(suffix):
        return None
    pre = unit[: len(unit) - len(suffix)]
    table = BIN_PREFIX if binary else DEC_PREFIX
    if pre not in table:
        return None
    return num, table.index(pre)


def check_number_text(num, exact, where):
    """num: printed number text; exact: Fraction it stands for (in the printed unit). Returns error or None."""
    if not NUM_RE.match(num):
        return "%s: '%s' is not a plain decimal number" % (where, num)
    if "." in num:
        ip, fp = num.split(".")
        if fp.endswith("0"):
            return "%s: '%s' has trailing zeros" % (where, num)
    else:
        ip, fp = num, ""
    if len(ip) > 1 and ip.startswith("0"):
        return "%s: '%s' has a leading zero" % (where, num)
    d = len(ip)
    k = max(0, 4 - d)
    if len(fp) > k:
        return "%s: '%s' shows %d decimals, at most %d allowed with %d integer digits" % (where, num, len(fp), k, d)
    printed = Fraction(num)
    tol = exact * EPS
    if printed > exact + tol:
        return "%s: printed %s exceeds the exact value %s" % (where, num, float(exact))
    if exact - printed >= Fraction(1, 10 ** k) + tol:
        return "%s: printed %s is more than one unit of the last allowed place (10^-%d) below the exact value %.17g" % (where, num, k, float(exact))
    return None


def check_scaled(text, exact_total, suffix, binary, exact_input=False):
    """exact_total: Fraction (>= 0) in base units. Returns error string or None.

    exact_input: the value reached the formatter without any prior rounding, so the prefix boundary is judged exactly."""
    p = parse_scaled(text, suffix, binary)
    if p is None:
        return "'%s' is not '<number> <prefix>%s'" % (text, suffix)
    num, e = p
    base = 1024 if binary else 1000
    lo = Fraction(base) ** e
    hi = Fraction(base) ** (e + 1)
    tol = 0 if exact_input else exact_total * EPS
    if e > 0 and exact_total + tol < lo:
        return "'%s': prefix too large for exact value %.17g" % (text, float(exact_total))
    if e < 5 and exact_total - tol >= hi:
        return "'%s': prefix too small for exact value %.17g" % (text, float(exact_total))
    return check_number_text(num, exact_total / lo, "'%s'" % text)


def check_throughput(text, kind, count, picos, binary):
    suffix = KIND_SUFFIX[kind]
    if text.startswith("PANIC"):
        return "formatting panicked: " + text
    use_binary = binary and kind == 0
    if count == 0:
        return None if text == "0 " + suffix else "zero count printed as '%s'" % text
    if picos == 0:
        return None if text == "inf " + suffix else "zero duration with non-zero count printed as '%s'" % text
    # the duration enters the float path as a double
    exact = Fraction(count) * PICOS / Fraction(float(picos))
    return check_scaled(text, exact, suffix, use_binary)


def check_bytes(text, value, binary):
    if text.startswith("PANIC"):
        return "formatting panicked: " + text
    if value == float("inf"):
        return None if text == "inf B" else "infinite size printed as '%s'" % text
    return check_scaled(text, Fraction(value), "B", binary, exact_input=True)


def check_plain(text, value):
    if text.startswith("PANIC"):
        return "formatting panicked: " + text
    if value == float("inf"):
        return None if text == "inf" else "infinity printed as '%s'" % text
    return check_number_text(text, Fraction(value), "'%s'" % text)


# ---------------------------------------------------------------------------
# C16: orderings
# ---------------------------------------------------------------------------

def tokenize(s):
    b = s.encode("utf-8")
    out = []
    i = 0
    while i < len(b):
        isd = 48 <= b[i] <= 57
        j = i + 1
        while j < len(b) and (48 <= b[j] <= 57) == isd:
            j += 1
        out.append((isd, b[i:j]))
        i = j
    return out


def cmp(a, b):
    return (a > b) - (a < b)


def natural_cmp(a, b):
    """Digit runs compare by numeric value, everything else bytewise; a proper prefix sorts first."""
    ta, tb = tokenize(a), tokenize(b)
    for (ia, xa), (ib, xb) in zip(ta, tb):
        if ia and ib:
            c = cmp(int(xa), int(xb))
        else:
            c = cmp(xa, xb)
        if c:
            return c
    return cmp(len(ta), len(tb))


INT_RE = re.compile(r"^[+-]?[0-9]+$")
FLOAT_RE = re.compile(r"^[+-]?((([0-9]+\.?[0-9]*|\.[0-9]+)([eE][+-]?[0-9]+)?)|inf|infinity|nan)$", re.I)


def rust_int(s):
    """Value if `s` parses as a Rust i128 / u128, else None."""
    if not INT_RE.match(s):
        return None
    v = int(s)
    if s.startswith("-"):
        return v if v >= -(2 ** 127) else None
    return v if v < 2 ** 128 else None


def rust_float(s):
    if not FLOAT_RE.match(s):
        return None
    try:
        return float(s)
    except ValueError:
        return None


def arg_value_cmp(a, b):
    """The Name attribute for runtime arguments: numbers by value, otherwise natural order. 0 = tie."""
    ia, ib = rust_int(a), rust_int(b)
    if ia is not None and ib is not None:
        return cmp(ia, ib)
    fa, fb = rust_float(a), rust_float(b)
    if fa is not None and fb is not None and fa == fa and fb == fb:
        return cmp(fa, fb)
    return natural_cmp(a, b)


def arg_cmp(attr, names, i, j):
    """Full three-key comparator for arguments i, j of one benchmark (attr: 0 kind, 1 name, 2 location)."""
    order = {0: (0, 1, 2), 1: (1, 2, 0), 2: (2, 0, 1)}[attr]
    for k in order:
        if k == 0:
            c = 0
        elif k == 1:
            c = arg_value_cmp(names[i], names[j])
        else:
            c = cmp(i, j)
        if c:
            return c
    return 0
