"""Parses divan's box-drawing output back into a tree + table, from indentation and glyphs alone."""

BRANCH, CORNER, BAR = "├─ ", "╰─ ", "│"
MARK_LOG, MARK_END = "=====VERIF-LOG=====", "=====VERIF-END====="


class ParseError(Exception):
    pass


class Node:
    def __init__(self, name, depth, line_no):
        self.name = name
        self.depth = depth
        self.line_no = line_no
        self.children = []
        self.parent = None
        self.cells = None          # list of 6 strings for the first row (bench mode), or None
        self.rows = []             # continuation rows: lists of 6 strings
        self.ignored = False
        self.prefix = ""           # literal indentation text before the glyph
        self.glyph = ""            # BRANCH / CORNER / "" (top level)
        self.has_table = False
        self.cont_prefixes = []    # literal tree prefix of each continuation row

    def path(self):
        p, n = [], self
        while n is not None:
            p.append(n.name)
            n = n.parent
        return list(reversed(p))

    def is_leaf(self):
        return not self.children

    def walk(self):
        yield self
        for c in self.children:
            yield from c.walk()


def split_cells(text):
    """Splits the table part of a line into cells by order between separators."""
    # separators are ' │ ' (or ' │' before an empty last cell)
    parts = []
    cur = text
    while True:
        i = cur.find(" " + BAR)
        if i < 0:
            parts.append(cur)
            break
        parts.append(cur[:i])
        cur = cur[i + 2:]
        if cur.startswith(" "):
            cur = cur[1:]
    return parts


def split_name(rest):
    """rest = name [+ >=2 spaces + remainder]."""
    i = rest.find("  ")
    if i < 0:
        return rest, ""
    return rest[:i], rest[i:].lstrip(" ")


def parse_output(stdout):
    """Returns (roots, log_lines, status). Raises ParseError on any line it cannot place."""
    if MARK_LOG in stdout:
        body, tail = stdout.split(MARK_LOG, 1)
    else:
        body, tail = stdout, ""
    log = [l for l in tail.split("\n") if l and l != MARK_END]
    status = log[0] if log and log[0].startswith("status") else None
    if status:
        log = log[1:]
    roots = []
    stack = []   # nodes by depth
    last_leaf = None
    lines = body.split("\n")
    blank_after_root = []
    for no, raw in enumerate(lines):
        line = raw.rstrip("\n")
        if not line.strip():
            if line.strip() == "" and stack:
                blank_after_root.append(no)
            continue
        first = line[0]
        if first not in (" ", BAR, "├", "╰"):
            # top-level node
            name, rem = split_name(line)
            n = Node(name, 0, no)
            if rem:
                cells = split_cells(rem)
                n.has_table = True
                n.cells = cells
            roots.append(n)
            stack = [n]
            last_leaf = None
            continue
        # find the branch glyph after a run of prefix groups
        pos = None
        i = 0
        while i + 3 <= len(line):
            g = line[i:i + 3]
            if g in (BRANCH, CORNER):
                pos = i
                break
            if g in (BAR + "  ", "   "):
                i += 3
                continue
            break
        if pos is not None:
            depth = pos // 3 + 1
            if depth > len(stack):
                raise ParseError("line %d: depth %d under a node of depth %d: %r" % (no, depth, len(stack) - 1, line))
            rest = line[pos + 3:]
            name, rem = split_name(rest)
            n = Node(name, depth, no)
            n.prefix = line[:pos]
            n.glyph = line[pos:pos + 3]
            parent = stack[depth - 1]
            n.parent = parent
            parent.children.append(n)
            del stack[depth:]
            stack.append(n)
            if rem:
                if rem.startswith("(ignored)"):
                    n.ignored = True
                    rem2 = rem[len("(ignored)"):]
                    if rem2.strip(" " + BAR) != "":
                        raise ParseError("line %d: text after (ignored): %r" % (no, line))
                    n.has_table = BAR in rem2
                else:
                    n.cells = split_cells(rem)
                    n.has_table = True
            last_leaf = n
            continue
        # continuation row of the most recent node
        if last_leaf is None:
            raise ParseError("line %d: continuation row without a node: %r" % (no, line))
        # literal tree prefix = leading run of bars and spaces up to the name column
        j = 0
        while j < len(line) and line[j] in (" ", BAR):
            j += 1
        # the first cell may legitimately start with two spaces; the tree prefix ends with the last bar before them
        lead = line[:j]
        k = lead.rfind(BAR)
        tree_prefix = lead[:k + 1] if k >= 0 else ""
        cells = split_cells(line[j:])
        # re-attach leading spaces of the first cell (sub-rows are indented by two spaces)
        pad = lead[k + 1:] if k >= 0 else lead
        last_leaf.rows.append(cells)
        last_leaf.cont_prefixes.append((tree_prefix, len(pad)))
    return roots, log, status


def check_wellformed(roots):
    """Glyphs and indentation must encode each node's true position. Returns list of error strings."""
    errs = []

    def rec(node, anc_has_later):
        for idx, ch in enumerate(node.children):
            last = idx == len(node.children) - 1
            want_glyph = CORNER if last else BRANCH
            want_prefix = "".join((BAR + "  ") if later else "   " for later in anc_has_later)
            if ch.glyph != want_glyph:
                errs.append("line %d: '%s' is %s child but drawn with %r" % (ch.line_no, ch.name, "the last" if last else "a non-last", ch.glyph))
            if ch.prefix != want_prefix:
                errs.append("line %d: '%s' indentation %r, position requires %r" % (ch.line_no, ch.name, ch.prefix, want_prefix))
            # continuation rows: bar exactly under ancestors with later siblings, plus this node's own bar iff non-last
            want_cont = (want_prefix + (BAR if not last else "")).rstrip(" ")
            for (tp, _pad) in ch.cont_prefixes:
                if tp.rstrip(" ") != want_cont:
                    errs.append("line %d: continuation row of '%s' has tree prefix %r, position requires %r" % (ch.line_no, ch.name, tp, want_cont))
                    break
            rec(ch, anc_has_later + [not last])

    for r in roots:
        if r.glyph or r.prefix:
            errs.append("line %d: top-level node drawn with a glyph" % r.line_no)
        rec(r, [])
    return errs
