"""Judges one treedrv run against the reference model; violations are tagged with the property they refute."""
import re

from . import models, tree_parse, treegen as TG, treemodel as TM

HEADINGS = ["fastest", "slowest", "median", "mean", "samples", "iters"]


class TV:
    def __init__(self, prop, code, msg):
        self.prop, self.code, self.msg = prop, code, msg

    def sig(self):
        return "%s:%s" % (self.prop, self.code)


def unarg(s):
    """Argument field of the invocation log: '-' no argument, '=' the empty text, else hex."""
    return None if s == "-" else ("" if s == "=" else unhex(s))


def unhex(s):
    return "" if s == "-" else bytes.fromhex(s).decode("utf-8")


def parse_log(log):
    """-> dict(args_eval: {bid: n}, runs: [ {bid, arg, ty, const, calls{thread:count}} in order ], enters: [...])"""
    out = {"args_eval": {}, "runs": [], "enters": [], "ord": []}
    for ln in log:
        p = ln.split(" ")
        if p[0] == "args_eval":
            out["args_eval"][int(p[1])] = out["args_eval"].get(int(p[1]), 0) + 1
        elif p[0] == "enter":
            out["enters"].append({"bid": int(p[1]), "arg": unarg(p[2]), "ty": None if p[3] == "-" else unhex(p[3]),
                                  "const": None if p[4] == "-" else unhex(p[4])})
        elif p[0] == "ord":
            out["ord"].append({"bid": int(p[1]), "threads": int(p[2]), "rounds": int(p[3]), "bad": int(p[4])})
        elif p[0] == "run":
            calls = {}
            if p[5] != "-":
                for kv in p[5].split(","):
                    k, v = kv.split(":")
                    calls[int(k)] = int(v)
            out["runs"].append({"bid": int(p[1]), "arg": unarg(p[2]), "ty": None if p[3] == "-" else unhex(p[3]),
                                "const": None if p[4] == "-" else unhex(p[4]), "calls": calls})
    return out


def match_children(enodes, pnodes):
    """Pairs expected with printed siblings by name (and leaf-ness). Returns (pairs, missing, extra)."""
    by_name = {}
    for p in pnodes:
        by_name.setdefault(p.name, []).append(p)
    pairs, missing = [], []
    for e in enodes:
        cands = by_name.get(e.name, [])
        pick = None
        want_leaf = not e.children
        if len(cands) > 1:
            # same-named siblings (a function and a module may share a name): prefer the printed node whose children overlap most
            want = {c.name for c in e.children}
            best = max(cands, key=lambda c: (c.is_leaf() == want_leaf, len(want & {x.name for x in c.children}), -len({x.name for x in c.children} - want)))
            pick = best
        for c in cands:
            if pick is None and c.is_leaf() == want_leaf:
                pick = c
                break
        if pick is None and cands:
            pick = cands[0]
        if pick is None:
            missing.append(e)
        else:
            cands.remove(pick)
            pairs.append((e, pick))
    extra = [p for lst in by_name.values() for p in lst]
    return pairs, missing, extra


def match_tree(eroots, proots):
    """Returns (errors, mapping list of (enode, pnode))."""
    errs = []
    mapping = []

    def rec(es, ps, where, parent):
        pairs, missing, extra = match_children(es, ps)
        for m in missing:
            errs.append(("missing", "%s: expected node '%s' is not printed" % (where, m.name), parent))
        for x in extra:
            errs.append(("extra", "%s: printed node '%s' is not expected (unselected, duplicated or misplaced)" % (where, x.name), parent))
        for e, p in pairs:
            mapping.append((e, p))
            rec(e.children, p.children, where + "::" + e.name, e)

    rec(eroots, proots, "", None)
    return errs, mapping


def alloc_rows(beh, sim, s):
    """Expected allocation rows of one benchmark: per row the set of acceptable values under fastest / slowest / median / mean.
    Every call (or, with `ar`, every call whose ordinal j has j % mod == ar) allocates n blocks of z bytes that are live
    together, optionally grows the first by rg bytes and shrinks it back, then frees them. Under fastest / slowest / median
    stand the figures of the sample(s) that supplied the time (any of several tied ones), under mean the totals over all
    samples and iterations."""
    n, z, rg = min(beh.get("an", 0), 8), max(beh.get("az", 0), 1), beh.get("rg", 0)
    mod, ar = beh.get("mod", 1), beh.get("ar")
    durs, j0s = sim["samples"], sim.get("sample_j0") or [0] * len(sim["samples"])
    m = len(durs)
    figs = []
    for j0 in j0s:
        a = s if ar is None else sum(1 for j in range(j0, j0 + s) if j % mod == ar)
        live = 1 if a else 0
        # (max count, max bytes, alloc count, alloc bytes, grow count, grow bytes), totals of the sample
        figs.append((n * live, (n * z + rg) * live, n * a, n * z * a, (a if rg else 0), rg * a))
    if not any(f[2] for f in figs):
        return []
    srt = sorted(durs)
    per_iter = lambda f: tuple(x / s for x in f)
    fastest = {per_iter(figs[i]) for i in range(m) if durs[i] == srt[0]}
    slowest = {per_iter(figs[i]) for i in range(m) if durs[i] == srt[-1]}
    if m % 2:
        median = {per_iter(figs[i]) for i in range(m) if durs[i] == srt[m // 2]}
    else:
        lo = {}
        hi = {}
        for i in range(m):
            if durs[i] == srt[m // 2 - 1]:
                lo.setdefault(per_iter(figs[i]), set()).add(i)
            if durs[i] == srt[m // 2]:
                hi.setdefault(per_iter(figs[i]), set()).add(i)
        median = {tuple((x + y) / 2 for x, y in zip(fa, fb)) for fa, ia in lo.items() for fb, ib in hi.items() if len(ia | ib) >= 2}
    mean = {tuple(sum(f[k] for f in figs) / (m * s) for k in range(6))}
    cols = [fastest, slowest, median, mean]
    pick = lambda k: [sorted({f[k] for f in c}) for c in cols]
    rows = [("label", "max alloc:"), ("plain", pick(0)), ("bytes", pick(1)),
            ("label", "alloc:"), ("plain", pick(2)), ("bytes", pick(3)),
            ("label", "dealloc:"), ("plain", pick(2)), ("bytes", pick(3))]
    if rg:
        rows += [("label", "grow:"), ("plain", pick(4)), ("bytes", pick(5)),
                 ("label", "shrink:"), ("plain", pick(4)), ("bytes", pick(5))]
    return rows


def printed_cases(proots, action):
    """Leaf rows in printed order."""
    out = []
    for r in proots:
        for n in r.walk():
            if n.is_leaf():
                out.append(n)
    return out


def judge(sp, cfg, res, want=None):
    """Returns (violations, observations dict). `want`: set of property ids to evaluate (None = all)."""
    it = cfg.intent
    V = []
    obs = {"nodes": 0, "cases_selected": 0, "executions": 0, "cells_checked": 0, "rows_checked": 0, "sibling_sets": 0, "sibling_pairs": 0,
           "arg_lists": 0, "labels_checked": 0, "ignored_marks": 0, "thread_branches": 0, "option_fields_resolved": 0}

    def add(prop, code, msg):
        if want is None or prop in want:
            V.append(TV(prop, code, msg))

    if res.timed_out:
        return V, obs, "timeout"
    if res.rc != 0:
        # divan exits non-zero only through panics (caught -> rc 0) or clap errors
        return V, obs, "rc=%s stderr=%s" % (res.rc, res.stderr[-300:])
    if res.status is None:
        return V, obs, "no status line"
    if res.status.startswith("status panic"):
        msg = res.status[len("status panic "):]
        prop = "C16" if "total order" in msg or "Ord" in msg else "C20"
        add(prop, "runner_panicked", "the runner panicked: %s" % msg[:200])
        for other in sorted(want or ()):
            # no clause of a registry-level property is observable in a run that dies of a panic nothing in the registry raised
            if other != prop and other in ("C03", "C04", "C05", "C08", "C13", "C14", "C15", "C17", "C18", "C19"):
                add(other, "runner_panicked", "the runner panicked instead of running the selected benchmarks with their options: %s" % msg[:200])
        if "C05" in (want or {"C05"}) and "divide by zero" in msg:
            add("C05", "print_panic", "printing statistics panicked: %s" % msg[:200])
        return V, obs, None
    if "NaN" in res.stdout.split(tree_parse.MARK_LOG)[0]:
        add("C05", "nan_printed", "NaN printed in the statistics table")
        add("C20", "nan_printed", "NaN printed in the statistics table")
    if res.parse_error:
        add("C20", "unparseable", "output cannot be parsed back into a tree: %s" % res.parse_error)
        return V, obs, None

    eroots, executions, mroots, sel = TM.expected_tree(sp, it)
    obs["cases_selected"] = len(sel)
    log = parse_log(res.log)
    proots = res.roots
    obs["nodes"] = sum(1 for r in proots for _ in r.walk())

    # ---- C20: well-formedness + faithful structure --------------------------------------
    for e in tree_parse.check_wellformed(proots):
        add("C20", "malformed_glyphs", e)
    errs, mapping = match_tree(eroots, proots)
    for code, msg, parent in errs:
        add("C20", "tree_" + code, msg)
        add("C13", "shown_" + code, msg)
        if parent is not None and getattr(parent, "is_args_parent", False):
            # the rows below a benchmark with args are its argument cases: each must be displayed under its argument's label
            add("C17", "arg_row_label_" + code, msg)
    pmap = {id(e): p for e, p in mapping}

    # header + table shape
    if it.action == "bench":
        for r in proots:
            if r.cells is None or [c.strip() for c in r.cells] != HEADINGS:
                add("C20", "bad_header", "top-level row of '%s' does not carry the column headings: %r" % (r.name, r.cells))
    # ---- ignored marks (C15 + C20) -------------------------------------------------------
    for e, p in mapping:
        if e.kind == "ignored":
            obs["ignored_marks"] += 1
            if not p.ignored:
                add("C15", "ignored_not_marked", "'%s' has effective ignore=true but is not marked (ignored)" % "::".join(p.path()))
                add("C20", "ignored_not_marked", "'%s' should be marked (ignored)" % "::".join(p.path()))
        elif p.ignored:
            add("C15", "marked_ignored", "'%s' is marked (ignored) but its effective ignore is false / the flags say it runs" % "::".join(p.path()))
            add("C20", "marked_ignored", "'%s' is wrongly marked (ignored)" % "::".join(p.path()))

    # ---- executions vs. log (C13 executed set, C15 counts/threads, C03 slice, C20 ignored not run) ----
    want_runs = []
    for ex in executions:
        sim = TM.simulate_execution(ex, sp, it)
        ex["sim"] = sim
        case = ex["case"]
        want_runs.append((case.leaf.bench.bid, case.arg[1] if case.arg else None, case.leaf.ty, case.leaf.const))
    got_runs = [(r["bid"], r["arg"], r["ty"], r["const"]) for r in log["runs"]]
    obs["executions"] = len(got_runs)
    if it.action in ("list",):
        if log["runs"] or log["enters"]:
            add("C14", "list_invoked", "listing invoked %d benchmark bodies (e.g. bench id %s)" % (len(log["enters"]), log["enters"][0]["bid"] if log["enters"] else "?"))
    else:
        from collections import Counter
        cw, cg = Counter(want_runs), Counter(got_runs)
        for k in (cw - cg):
            add("C13", "selected_not_run", "case %s (bench %d) passes the filters and ignore flags but did not run (x%d)" % (k[1:], k[0], (cw - cg)[k]))
        for k in (cg - cw):
            add("C13", "unselected_run", "case %s (bench %d) ran although the filters / ignore flags exclude it (x%d)" % (k[1:], k[0], (cg - cw)[k]))
            add("C20", "ran_but_not_expected", "case %s (bench %d) ran but must not (ignored / unselected)" % (k[1:], k[0]))
    for o in log.get("ord", []):
        obs["ord_rounds"] = obs.get("ord_rounds", 0) + o["rounds"]
        if o["bad"]:
            add("C08", "start_before_all_generated_e2e", "bench %d on %d threads: in %d of %d rounds a thread entered its first call before another thread had finished generating its inputs" % (
                o["bid"], o["threads"], o["bad"], o["rounds"]))
    for bid, n in log["args_eval"].items():
        if n > 1:
            add("C17", "args_evaluated_twice", "argument list of bench %d was evaluated %d times in one process" % (bid, n))

    # pair executions with log runs: by key, in order of appearance
    runs_by_key = {}
    for r in log["runs"]:
        runs_by_key.setdefault((r["bid"], r["arg"], r["ty"], r["const"]), []).append(r)
    for ex in executions:
        case = ex["case"]
        key = (case.leaf.bench.bid, case.arg[1] if case.arg else None, case.leaf.ty, case.leaf.const)
        lst = runs_by_key.get(key, [])
        sim = ex["sim"]
        if sim is None or not lst:
            continue
        # thread-count branches run in ascending order for one case
        tcs = TG.thread_counts(ex["eff"])
        idx = tcs.index(ex["T"])
        if idx == 0 and len(lst) != len(tcs) and it.action != "list":
            # the body runs once per thread count the options name (0 = the available parallelism, wherever it stands in the list)
            add("C03", "runs_per_thread_count_e2e", "%s: the body was entered for %d thread counts, the threads option %s names %s" % (
                case.path(), len(lst), ex["eff"].get("th"), tcs))
        if idx >= len(lst):
            continue
        r = lst[idx]
        ex["run"] = r
        obs["option_fields_resolved"] += len(ex["eff"])
        if sim.get("calls") is not None and sim.get("predictable_time", True) is not False:
            exp_calls = {k: v for k, v in sim["calls"].items() if v}
            if r["calls"] != exp_calls:
                where = "%s (T=%d)" % (case.path(), ex["T"])
                add("C15", "calls_mismatch", "%s: calls per thread %s, effective options %s give %s" % (where, r["calls"], ex["eff"], exp_calls))
                add("C03", "calls_mismatch_e2e", "%s: calls per thread %s, options give %s" % (where, r["calls"], exp_calls))
                if "ss" not in ex["eff"] and it.action == "bench":
                    # the sample size was chosen by tuning: every benchmark, argument case and thread count starts again from 1
                    add("C19", "tuned_calls_e2e", "%s: %s calls per thread with an automatic sample size, the doubling rule on this clock gives %s" % (where, r["calls"], exp_calls))
                if any(k in ex["eff"] for k in ("xt", "mt", "sk")) and it.action == "bench":
                    add("C04", "rounds_e2e", "%s: %s calls per thread, the documented time rule with the effective options %s gives %s" % (where, r["calls"], ex["eff"], exp_calls))

    # ---- table cells (C20 / C05 / C15 / C18 slice) ---------------------------------------
    if it.action == "bench" and it.tsc:
        freq = sp.clock[0]
        for ex in executions:
            e = ex["node"]
            p = pmap.get(id(e))
            sim = ex.get("sim")
            if p is None or sim is None:
                continue
            where = "::".join(p.path())
            if not sim["did_run"]:
                if p.cells is not None and any(c.strip() for c in p.cells):
                    add("C20", "cells_without_run", "%s: statistics shown although no benchmark function was registered" % where)
                continue
            if p.cells is None or len(p.cells) != 6:
                add("C20", "row_shape", "%s: statistics row does not split into six cells: %r" % (where, p.cells))
                continue
            cells = [c.strip() for c in p.cells]
            if sim.get("samples") is None:
                continue
            s = sim["sample_size"]
            nsamp = len(sim["samples"])
            exp_tail = [str(nsamp), str(nsamp * (s or 0))]
            if sim.get("predictable_time", True) and cells[4:] != exp_tail:
                add("C20", "samples_iters_cells", "%s: samples/iters cells %s, expected %s" % (where, cells[4:], exp_tail))
                add("C15", "samples_iters", "%s: samples/iters %s, effective options %s give %s" % (where, cells[4:], ex["eff"], exp_tail))
                add("C03", "figures_e2e", "%s: printed samples/iters %s, recorded %s" % (where, cells[4:], exp_tail))
            if sim.get("predictable_time", True):
                st = TM.expected_stats(sim["samples"], s) if nsamp and s else [0, 0, 0, 0]
                exp = [models.fmt_duration(x) for x in st]
                obs["cells_checked"] += 4
                if cells[:4] != exp:
                    add("C20", "time_cells", "%s: time cells %s, expected %s" % (where, cells[:4], exp))
                    add("C05", "time_cells_e2e", "%s: printed %s, exact order statistics %s" % (where, cells[:4], exp))
                    add("C18", "duration_cell_e2e", "%s: time cells %s are not the documented renderings %s of the exact figures" % (where, cells[:4], exp))
                # continuation rows
                ctrs = TM.effective_counters(ex)
                rows = [[c.strip() for c in row] for row in p.rows]
                exp_rows = []
                for k in range(4):
                    if k in ctrs and nsamp:
                        exp_rows.append(("counter", k, ctrs[k]))
                beh = case_beh(ex)
                an, az = beh.get("an", 0), beh.get("az", 0)
                if an and nsamp and sim.get("mode") != 3:
                    exp_rows += alloc_rows(beh, sim, s)
                # which counter kinds have a throughput row (by unit suffix) vs. the kinds that are in force
                def kind_of(cell):
                    for kk, suf in ((1, "char/s"), (3, "item/s"), (2, "Hz"), (0, "B/s")):
                        if cell.endswith(suf):
                            return kk
                    return None
                shown_kinds = sorted({kind_of(r[0]) for r in rows if kind_of(r[0]) is not None})
                want_kinds = sorted(k for k in range(4) if k in ctrs and nsamp)
                if shown_kinds != want_kinds:
                    add("C15", "counter_kinds", "%s: throughput rows for counter kinds %s, the per-kind resolution gives %s (%s)" % (where, shown_kinds, want_kinds, ex["eff"]))
                if len(rows) != len(exp_rows):
                    add("C20", "continuation_rows", "%s: %d continuation rows %s, expected %d (%s)" % (where, len(rows), [r[0] for r in rows], len(exp_rows), [x[:2] for x in exp_rows]))
                    if any(x[0] == "counter" for x in exp_rows) != any("/s" in r[0] or "Hz" in r[0] for r in rows):
                        add("C15", "counter_rows", "%s: counter rows %s, effective counters %s" % (where, [r[0] for r in rows], ctrs))
                else:
                    for row, er in zip(rows, exp_rows):
                        obs["rows_checked"] += 1
                        if len(row) != 6:
                            add("C20", "row_shape", "%s: continuation row does not split into six cells: %r" % (where, row))
                            continue
                        if row[4] or row[5]:
                            add("C20", "row_shape", "%s: continuation row has text under samples/iters: %r" % (where, row))
                        if er[0] == "label":
                            if row[0] != er[1] or any(row[1:4]):
                                add("C20", "row_label", "%s: expected row label %r, got %r" % (where, er[1], row))
                        elif er[0] == "counter":
                            for col in range(4):
                                err = models.check_throughput(row[col], er[1], er[2], st[col], it.binary)
                                if err:
                                    add("C20", "throughput_cell", "%s: %s" % (where, err))
                                    add("C18", "throughput_cell_e2e", "%s (bytes format %s as configured): %s" % (where, "binary" if it.binary else "decimal", err))
                                    add("C15", "counter_value", "%s: counter kind %d should be %d (%s): %s" % (where, er[1], er[2], ex["eff"], err))
                                    break
                        elif er[0] == "plain":
                            for col in range(4):
                                errs_ = [models.check_plain(row[col], v) for v in er[1][col]]
                                if all(errs_):
                                    add("C20", "alloc_count_cell", "%s: column %s: %s" % (where, HEADINGS[col], errs_[0]))
                                    break
                        else:
                            for col in range(4):
                                errs_ = [models.check_bytes(row[col], v, it.binary) for v in er[1][col]]
                                if all(errs_):
                                    add("C20", "alloc_bytes_cell", "%s: column %s: %s" % (where, HEADINGS[col], errs_[0]))
                                    add("C18", "bytes_cell_e2e", "%s (bytes format %s as configured): column %s: %s" % (where, "binary" if it.binary else "decimal", HEADINGS[col], errs_[0]))
                                    break

    # ---- thread branches (C15) ------------------------------------------------------------
    for e, p in mapping:
        if getattr(e, "ordered", False):
            names = [c.name for c in p.children]
            exp = [c.name for c in e.children]
            obs["thread_branches"] += len(exp)
            if names != exp:
                add("C15", "thread_branches", "'%s': thread branches %s, effective threads option gives %s" % ("::".join(p.path()), names, exp))
                add("C20", "thread_branch_order", "'%s': thread branches %s, expected %s" % ("::".join(p.path()), names, exp))
        elif e.kind == "bench" and p.children and it.action != "list":
            add("C15", "thread_branches", "'%s': printed with branches %s, a single thread count is in force" % ("::".join(p.path()), [c.name for c in p.children]))

    # ---- C16: order of siblings --------------------------------------------------------------
    sign = -1 if it.sort_rev else 1
    alive = set()

    def mark(e):
        if e.model is not None:
            alive.add(id(e.model))
        for c in e.children:
            mark(c)

    for e in eroots:
        mark(e)
    TG.ALIVE = alive
    for e, p in mapping:
        if not e.children or getattr(e, "ordered", False):
            continue
        kids = [(pmap_inv(mapping, pc), pc) for pc in p.children]
        if any(k[0] is None for k in kids):
            continue
        if getattr(e, "is_args_parent", False):
            obs["arg_lists"] += 1
            names = [a[1] for a in e.model.args]
            renders = [a[1] for a in e.model.args]
            idx_of = {}
            ambiguous = len(set(renders)) != len(renders)
            if ambiguous:
                continue
            for i, rname in enumerate(renders):
                idx_of[rname] = i
            seq = [idx_of.get(pc.name) for pc in p.children]
            if any(s is None for s in seq):
                continue
            raw_names = [arg_text_for_cmp(e.model.bench, i) for i in range(len(renders))]
            for a, b in zip(seq, seq[1:]):
                obs["sibling_pairs"] += 1
                c = models.arg_cmp(it.sort_attr, raw_names, a, b) * sign
                if c > 0:
                    add("C16", "args_out_of_order", "'%s': argument '%s' is shown before '%s' under sort=%s%s" % (
                        "::".join(p.path()), renders[a], renders[b], ["kind", "name", "location"][it.sort_attr], " (reversed)" if it.sort_rev else ""))
                    add("C20", "not_in_sorted_order", "'%s': argument row '%s' is printed before '%s' (sort=%s%s)" % (
                        "::".join(p.path()), renders[a], renders[b], ["kind", "name", "location"][it.sort_attr], " reversed" if it.sort_rev else ""))
                    break
            continue
        obs["sibling_sets"] += 1
        mods = [k[0].model for k in kids]
        for (ma, pa), (mb, pb) in zip(zip(mods, p.children), zip(mods[1:], p.children[1:])):
            obs["sibling_pairs"] += 1
            if pa.name == pb.name and pa.is_leaf() and pb.is_leaf():
                # two rows that print identically (benchmarks of one name nested in different function bodies of one module): which
                # of them stands first cannot be read off the output
                continue
            c = TG.cmp_nodes(it.sort_attr, ma, mb) * sign
            if c > 0:
                add("C16", "siblings_out_of_order" + same_position_suffix(ma, mb), "under '%s': '%s' is shown before '%s' under sort=%s%s" % (
                    "::".join(p.path()), pa.name, pb.name, ["kind", "name", "location"][it.sort_attr], " (reversed)" if it.sort_rev else ""))
                if not same_position_suffix(ma, mb):
                    # (entries sharing one source position are C16's open finding, keyed there)
                    add("C20", "not_in_sorted_order", "under '%s': '%s' is printed before '%s' (sort=%s%s)" % (
                        "::".join(p.path()), pa.name, pb.name, ["kind", "name", "location"][it.sort_attr], " reversed" if it.sort_rev else ""))
                break
    # top level
    if len(proots) > 1:
        kids = [(pmap_inv(mapping, pc), pc) for pc in proots]
        if all(k[0] is not None for k in kids):
            for (ea, pa), (eb, pb) in zip(kids, kids[1:]):
                c = TG.cmp_nodes(it.sort_attr, ea.model, eb.model) * sign
                if c > 0:
                    add("C16", "siblings_out_of_order" + same_position_suffix(ea.model, eb.model), "top level: '%s' is shown before '%s'" % (pa.name, pb.name))

    TG.ALIVE = None
    # ---- C17: each printed row vs. the value its body received -----------------------------------
    if it.action in ("test", "bench"):
        rows = []
        bench_of = {b.bid: b for b in sp.benches}
        for e, p in mapping:
            if e.kind == "bench":
                rows.append((p.line_no, e, p))
        rows.sort(key=lambda x: x[0])
        if len(rows) != len(log["runs"]):
            # the printed tree could not be matched node by node against the expected one (a label differs, say): the rows that
            # ran are then the printed leaves that are not marked as ignored, in printing order
            leaves = [n for n in printed_cases(proots, it.action) if not n.ignored]
            if len(leaves) == len(log["runs"]):
                by_p = {id(p): e for e, p in mapping if e.kind == "bench"}
                rows = [(n.line_no, by_p.get(id(n)), n) for n in leaves]
        if len(rows) == len(log["runs"]):
            for (_, e, p), r in zip(rows, log["runs"]):
                obs["labels_checked"] += 1
                path = p.path()
                if path[-1].startswith("t=") and (e.name.startswith("t=") if e is not None else (r["arg"] != path[-1] or r["arg"] is None)):
                    path = path[:-1]
                label = path[-1]
                if r["arg"] is not None:
                    if label != r["arg"]:
                        add("C17", "arg_label_mismatch", "row labelled '%s' (%s) ran with argument '%s'" % (label, "::".join(path), r["arg"]))
                    # an argument row of a generic instantiation sits under the const / type it was instantiated with
                    up = path[:-1]
                    if r["const"] is not None and up:
                        kind = bench_of[r["bid"]].constkind
                        if up[-1] != TG.const_render(kind, r["const"]):
                            add("C17", "const_label_mismatch", "row '%s' sits under const '%s' but ran with const '%s'" % ("::".join(path), up[-1], r["const"]))
                        up = up[:-1]
                    if r["ty"] is not None and up and up[-1] != TG.type_display(r["ty"]):
                        add("C17", "type_label_mismatch", "row '%s' sits under type '%s' but ran with type '%s'" % ("::".join(path), up[-1], r["ty"]))
                elif r["const"] is not None:
                    kind = bench_of[r["bid"]].constkind
                    if label != TG.const_render(kind, r["const"]):
                        add("C17", "const_label_mismatch", "row labelled '%s' (%s) ran with const '%s'" % (label, "::".join(path), r["const"]))
                    if r["ty"] is not None and len(path) >= 2 and path[-2] != TG.type_display(r["ty"]):
                        add("C17", "type_label_mismatch", "row under type '%s' ran with type '%s'" % (path[-2], r["ty"]))
                elif r["ty"] is not None:
                    if label != TG.type_display(r["ty"]):
                        add("C17", "type_label_mismatch", "row labelled '%s' ran with type '%s'" % (label, r["ty"]))
                twin = False
                if e is not None and e.case is not None and r["bid"] in bench_of:
                    b1, b2 = e.case.leaf.bench, bench_of[r["bid"]]
                    # two benchmarks whose rows print identically (same module path, same name, plain): which row is whose cannot be told
                    twin = b1.bid != b2.bid and (b1.modpath, b1.display, b1.kind) == (b2.modpath, b2.display, b2.kind) and b1.kind == "plain"
                if e is not None and e.case is not None and e.case.leaf.bench.bid != r["bid"] and not twin:
                    add("C17", "row_runs_other_bench", "row '%s' belongs to bench %d but bench %d ran" % ("::".join(path), e.case.leaf.bench.bid, r["bid"]))
    return V, obs, None


def case_beh(ex):
    return ex["case"].leaf.bench.beh


def pmap_inv(mapping, pnode):
    for e, p in mapping:
        if p is pnode:
            return e
    return None


def arg_text_for_cmp(bench, i):
    """The name divan compares is the argument's rendering."""
    return TG.arg_render(bench.argtype, bench.args[i])


def same_position_suffix(ma, mb):
    """Discriminator for the known-findings key: two distinct entries that share one source position."""
    la, lb = TG.node_location(ma), TG.node_location(mb)
    same_benchmark = ma.bench is not None and ma.bench is mb.bench
    if la is not None and la == lb and ma.location is not None and mb.location is not None and not same_benchmark:
        return ":distinct_entries_at_one_source_position"
    return ""
