"""Checks for the sample-loop properties: C01 C02 C03 C04 C05 C08 C19."""
import os
import re
import subprocess
import time
from concurrent.futures import ThreadPoolExecutor

from . import build, loopgen, runner, sanit
from . import loop_oracle as LO
from . import evlog as E

GENS = {
    "C01": loopgen.gen_c01, "C02": loopgen.gen_c02, "C03": loopgen.gen_c03, "C04": loopgen.gen_c04,
    "C05": loopgen.gen_c05, "C19": loopgen.gen_c19,
}


def config_key(an):
    c = an.cfg
    return (c.entry, c.ishape, c.oshape, min(c.s, 4), min(c.n, 4) if c.n >= 0 else -1, c.eff_T, c.test, c.tuned, c.has_panic,
            c.skip, c.max_ns is not None, c.min_ns is not None, len(c.ic), bool(an.run.cfg.get("caops")))


def judge_runs(prop, shards, out, checks=None, nontrivial=lambda an: an.total_calls() > 0, engine="native", binname="loopdrv"):
    """Applies the property's oracles to every conclusive run of every shard."""
    checks = checks or LO.ALL_CHECKS[prop]
    agg = {}
    for sh in shards:
        if (not sh.conclusive and sh.returncode == -6 and not sh.timed_out and prop in ("C03", "C04") and "memory allocation of" in sh.stderr
                and "divan::benchmark::BenchContext::bench_loop_threaded" in sh.stderr and "Vec<T,A>::reserve" in sh.stderr):
            # the process was brought down by divan's own up-front reservation for `sample_count` samples (an allocation failure aborts,
            # it cannot be caught): no call was made although the options name at least one round
            n_done = len([r for r in sh.runs if r.complete])
            culprit = sh.lines[n_done] if n_done < len(sh.lines) else sh.lines[-1]
            import re as _re
            m = _re.search(r"memory allocation of (\d+) bytes failed", sh.stderr)
            out.violation("%s:aborted_reserving_sample_count" % prop,
                          "the sample loop aborted the process (memory allocation of %s bytes failed) while reserving room for sample_count samples, before making a single call: %s" % (
                              m.group(1) if m else "?", culprit), {"engine": engine, "bin": binname, "cfg": culprit, "stderr": sh.stderr[:3000]})
            continue
        if not sh.conclusive:
            out.inconclusive_shard("engine=%s shard of %d configs: done=%s rc=%s timeout=%s stderr=%s" % (
                engine, len(sh.lines), sh.done, sh.returncode, sh.timed_out, sh.stderr[-300:].replace("\n", " | ")))
        for run in sh.runs:
            if not run.complete:
                continue
            if run.overflow:
                out.inconclusive_shard("event log overflow in config %s" % run.cfg_line)
                continue
            out.evaluations += 1
            an = LO.Analysis(run)
            if an.struct_errors:
                out.inconclusive_shard("unreadable log for config %s: %s" % (run.cfg_line, an.struct_errors[:2]))
                continue
            if an.cfg.vos:
                agg["os_timer_path_runs_on_scripted_clock"] = agg.get("os_timer_path_runs_on_scripted_clock", 0) + 1
            if an.unpublished:
                agg["unpublished_slots"] = agg.get("unpublished_slots", 0) + an.unpublished
            if nontrivial(an):
                out.distinct.add(config_key(an))
            for chk in checks:
                vs, info = chk(an)
                for k, v in info.items():
                    if isinstance(v, bool):
                        agg[k + "=" + str(v)] = agg.get(k + "=" + str(v), 0) + 1
                    elif isinstance(v, (int, float)):
                        agg[k] = agg.get(k, 0) + v
                for v in vs:
                    if v.prop != prop:
                        continue
                    out.violation(v.sig(), v.msg, {"engine": engine, "bin": binname, "cfg": run.cfg_line, "violation": v.to_json()})
            if run.sandwich and prop in ("C09",):
                pass
            if len(out.samples) < 6 and nontrivial(an):
                out.add_sample({"cfg": run.cfg_line, "status": run.status, "events": len(run.events),
                                "calls": an.total_calls(), "rounds": len(an.rounds),
                                "samples_recorded": len(run.report["samples"]) if run.report else None})
    return agg


def unexpected_panics(prop, shards, out):
    """A run without a panic plan must not panic (that would make every oracle vacuous)."""
    for sh in shards:
        for run in sh.runs:
            if run.complete and run.status != "ok" and "panic" not in run.cfg:
                if "C05 known" in run.msg:
                    continue
                out.violation("%s:unplanned_panic:%s" % (prop, re.sub(r"[0-9]+", "N", run.msg)[:60]),
                              "run panicked without a panic plan: %s" % run.msg, {"engine": "native", "bin": "loopdrv", "cfg": run.cfg_line})


def run_native(prop, lines, out, timeout=600, checks=None, flavour="native", nshards=None):
    bins = build.build(flavour, ["loopdrv"])
    shards = runner.run_parallel(bins["loopdrv"], lines, nshards=nshards, timeout=timeout)
    agg = judge_runs(prop, shards, out, checks=checks, engine=flavour)
    unexpected_panics(prop, shards, out)
    return shards, agg


def check(prop, tier, seed, out):
    lines = GENS[prop](tier, seed)
    shards, agg = run_native(prop, lines, out)
    out.extra["observed"] = agg
    out.extra["configs_generated"] = len(lines)
    out.rule = ("seeded random + boundary-grid configurations of loopdrv (entry point, input/output shape, s, n, T, mode, clock, cost/alloc/"
                "counter scripts, panic plan); distinct = distinct (entry, ishape, oshape, min(s,4), min(n,4), T, test, tuned, panic?, "
                "skip_ext, max?, min?, #input counters, alloc script?) tuples; non-trivial = the run made at least one benchmarked call")
    out.assumptions += ["event log taken at user closures, Drop impls, the virtual clock source and the outer allocator layer",
                        "virtual TSC clock (hook); the OS-timer path shares the loop code and is not scripted"]
    out.require("conclusive_runs", out.evaluations, 50 if tier == "quick" else 500)
    out.require("distinct_nontrivial", len(out.distinct), 20)
    if prop == "C04":
        # end-to-end slice: time options reaching the loop through the real runner (attribute, group, CLI, DIVAN_*, builder; also
        # a lone run-time `skip_ext_time = false`), judged on the calls each benchmark made under the scripted clock
        from . import treecheck
        jobs = [j for j in treecheck.make_jobs("C04", "quick", seed + 400) if j[1].intent.action == "bench"]
        if tier == "quick":
            jobs = jobs[:240]
        e2e, _, _ = treecheck.run_jobs(prop, jobs, out, want={prop})
        out.extra["end_to_end"] = e2e
        out.require("e2e_executions", e2e.get("executions", 0), 150)
    if prop == "C19":
        # end-to-end slice: tuning as the real runner drives it - one benchmark after another in one process, argument cases and several
        # thread counts per benchmark, each of which starts again at one iteration (the loop driver builds a fresh context per run, the
        # runner need not) - judged on the calls each (case, thread count) made under the scripted clock
        from . import treecheck
        jobs = [j for j in treecheck.make_jobs("C15", "quick", seed + 500) if j[1].intent.action == "bench"]
        if tier == "quick":
            jobs = jobs[:200]
        e2e, _, _ = treecheck.run_jobs(prop, jobs, out, want={prop})
        out.extra["end_to_end"] = e2e
        out.require("e2e_executions", e2e.get("executions", 0), 150)
    if prop in ("C03", "C05"):
        # end-to-end slice: the same figures through the real runner (options set by attribute-equivalent entry options, groups,
        # builder, CLI and DIVAN_* variables), judged on the printed samples / iters / time cells and the invocation log
        from . import treecheck
        jobs = treecheck.make_jobs("C15" if prop == "C03" else "C20", "quick", seed + 300)
        if tier == "quick":
            jobs = jobs[:240]
        if prop == "C03":
            # ... and one run of 2^32 real calls (16 samples of 2^28 iterations over all cores): counts beyond 32 bits, end to end
            # (run on its own, before the others, so that its 16 threads have the cores to themselves)
            bulk, _, _ = treecheck.run_jobs(prop, treecheck.bulk_jobs(seed), out, want={prop})
            out.extra["end_to_end_bulk"] = bulk
        e2e, _, _ = treecheck.run_jobs(prop, jobs, out, want={prop})
        out.extra["end_to_end"] = e2e
        out.require("e2e_executions", e2e.get("executions", 0), 200)
    if prop == "C01":
        sanit.c01_sanitizers(tier, seed, out)
    elif prop == "C02":
        out.require("samples_compared", agg.get("samples_compared", 0), 100)
        out.require("alloc_ops_in_calls", agg.get("alloc_ops_in_calls", 0), 100)
        sanit.miri_loop("C02", [l for l in loopgen.gen_c02("quick", seed) if " T=1 " in l or " T=2 " in l][:8 if tier == "quick" else 48], out)
    elif prop == "C05":
        out.require("chain_samples", agg.get("chain_samples", 0), 100)
    elif prop == "C19":
        out.require("tuning_rounds", agg.get("tuning_rounds", 0), 100)
    elif prop == "C04":
        out.require("rounds", agg.get("rounds", 0), 200)


def replay(prop, rp, out):
    if rp["first"]["replay"].get("bin") == "treedrv":
        from . import treecheck
        return treecheck.replay(prop, rp, out)
    cfg = rp["first"]["replay"]["cfg"]
    engine = rp["first"]["replay"].get("engine", "native")
    if engine not in ("native", "release", "asan", "tsan"):
        engine = "native"
    checks = LO.ALL_CHECKS.get(prop)
    shards, agg = run_native(prop, [cfg], out, checks=checks, flavour=engine, nshards=1)
    out.extra["observed"] = agg
