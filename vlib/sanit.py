"""Sanitizer / interpreter passes (Miri, ASan+LSan, TSan, valgrind) over harness drivers."""
import os
import re
import subprocess
import time
from concurrent.futures import ThreadPoolExecutor

from . import build, runner, evlog
from . import loop_oracle as LO

NCPU = os.cpu_count() or 4


def c01_sanitizers(tier, seed, out):
    pass


def miri_loop(prop, lines, out, seeds=1):
    pass
