"""Sanitizer / interpreter passes (Miri, ASan+LSan, TSan, valgrind) over harness drivers."""
import os
import re
import subprocess
import time
from concurrent.futures import ThreadPoolExecutor

from . import build, runner, evlog, loopgen
from . import loop_oracle as LO

NCPU = os.cpu_count() or 4


def merge(dst, src):
    for k, v in src.items():
        if isinstance(v, (int, float)) and isinstance(dst.get(k, 0), (int, float)):
            dst[k] = dst.get(k, 0) + v
        else:
            dst[k] = v


# ---------------------------------------------------------------------------
# Miri
# ---------------------------------------------------------------------------

MIRI_ERR = re.compile(r"^error: (.*)$", re.M)


def classify_miri(stderr):
    """Returns (kind, first_line, location) for a Miri diagnostic, or None."""
    m = None
    for mm in MIRI_ERR.finditer(stderr):
        txt = mm.group(1)
        if txt.startswith("aborting due to") or txt.startswith("could not compile"):
            continue
        m = mm
        break
    if m is None:
        return None
    txt = m.group(1)
    rest = stderr[m.end():m.end() + 3000]
    loc = re.search(r"-->\s+(\S+?):(\d+)", rest)
    where = (loc.group(1).replace(build.REPO, "<repo>") + ":" + loc.group(2)) if loc else "?"
    if not where.startswith("<repo>"):
        # prefer the first frame inside the repository
        m2 = re.search(r"at (%s/src/\S+?):(\d+)" % re.escape(build.REPO), rest)
        if m2:
            where = m2.group(1).replace(build.REPO, "<repo>") + ":" + m2.group(2)
        else:
            where = os.path.basename(where)
    low = txt.lower()
    if "deadlock" in low:
        kind = "deadlock"
    elif "data race" in low:
        kind = "data_race"
    elif "memory leaked" in low or "leaked" in low:
        kind = "leak"
    elif "main thread terminated without waiting" in low:
        kind = "threads_alive_at_exit"
    elif "undefined behavior" in low:
        kind = "ub"
    elif "unsupported operation" in low:
        kind = "unsupported"
    else:
        kind = "other"
    return kind, txt[:300], where


def miri_run(binname, args, flags, timeout):
    hdir = build.harness_dir()
    t0 = time.time()
    try:
        p = subprocess.run(build.miri_cmd(binname, args), cwd=hdir, env=build.miri_env(flags), stdout=subprocess.PIPE,
                           stderr=subprocess.PIPE, timeout=timeout)
        return p.returncode, p.stdout.decode("utf-8", "replace"), p.stderr.decode("utf-8", "replace"), False, time.time() - t0
    except subprocess.TimeoutExpired as e:
        return None, (e.stdout or b"").decode("utf-8", "replace"), (e.stderr or b"").decode("utf-8", "replace"), True, time.time() - t0


def miri_lines(prop, binname, lines, out, flags="", timeout=900, jobs=None, judge=None, per_process=1, ignore_leaks_if=lambda l: "panic=" in l,
               sig_prefix=None):
    """Runs each configuration line in its own interpreter process (or small groups)."""
    build.miri_prebuild(binname)
    groups = [lines[i:i + per_process] for i in range(0, len(lines), per_process)]
    stats = {"miri_processes": 0, "miri_clean": 0, "miri_seconds": 0.0}

    def one(group):
        fl = flags
        if any(ignore_leaks_if(l) for l in group):
            fl += " -Zmiri-ignore-leaks"
        args = []
        for l in group:
            args += ["--line", l]
        return group, miri_run(binname, args, fl.strip(), timeout)

    with ThreadPoolExecutor(max_workers=jobs or NCPU) as ex:
        results = list(ex.map(one, groups))
    all_runs = []
    for group, (rc, so, se, timed_out, wall) in results:
        stats["miri_processes"] += 1
        stats["miri_seconds"] += wall
        if timed_out:
            out.inconclusive_shard("miri watchdog (%ds) on %s" % (timeout, group[0]))
            continue
        diag = classify_miri(se)
        if rc != 0:
            if diag is None:
                out.inconclusive_shard("miri exited %s without a diagnostic on %s: %s" % (rc, group[0], se[-300:].replace("\n", " | ")))
                continue
            kind, txt, where = diag
            if kind == "unsupported":
                out.inconclusive_shard("miri: unsupported operation on %s: %s" % (group[0], txt))
                continue
            out.violation("%s:miri:%s:%s" % (sig_prefix or prop, kind, where), "Miri: %s (at %s)" % (txt, where),
                          {"engine": "miri", "bin": binname, "cfg": group[0], "flags": flags, "stderr": se[-3000:]})
            continue
        stats["miri_clean"] += 1
        runs, done = evlog.parse_runs(so)
        if not done:
            out.inconclusive_shard("miri run produced incomplete output on %s" % group[0])
            continue
        all_runs.extend(runs)
    if judge is not None:
        judge(all_runs)
    return stats, all_runs


def miri_loop(prop, lines, out, flags="", checks=None, timeout=900, jobs=None):
    """loopdrv under Miri, judged by the property's oracles as well as by the interpreter."""
    from . import loopcheck
    checks = checks or LO.ALL_CHECKS[prop]

    class Sh:
        pass

    def judge(runs):
        sh = runner.ShardResult()
        sh.runs, sh.done, sh.returncode = runs, True, 0
        agg = loopcheck.judge_runs(prop, [sh], out, checks=checks, engine="miri")
        merge(out.extra.setdefault("miri_observed", {}), agg)

    stats, _ = miri_lines(prop, "loopdrv", lines, out, flags=flags, timeout=timeout, jobs=jobs, judge=judge)
    prev = out.extra.get("miri", {})
    for k, v in stats.items():
        prev[k] = round(prev.get(k, 0) + v, 1)
    out.extra["miri"] = prev
    return stats


# ---------------------------------------------------------------------------
# ASan / TSan
# ---------------------------------------------------------------------------

def first_repo_frame(report):
    for ln in report.split("\n"):
        m = re.search(r"#\d+ 0x[0-9a-f]+ in (\S+) (\S+?):(\d+)", ln)
        if m and (build.REPO + "/src" in m.group(2) or "/repo/src" in m.group(2)):
            return "%s@%s:%s" % (m.group(1)[:60], os.path.basename(m.group(2)), m.group(3))
    for ln in report.split("\n"):
        m = re.search(r"#\d+ 0x[0-9a-f]+ in (\S+)", ln)
        if m and ("divan" in m.group(1)):
            return m.group(1)[:80]
    return "?"


def sanitizer_loop(prop, flavour, binname, lines, out, env_extra, timeout=900, nshards=None, judge_checks=None, marker=None):
    """Runs a sanitizer build over the lines; any report is a violation keyed on its first in-repo frame."""
    from . import loopcheck
    bins = build.build(flavour, [binname])
    env = dict(os.environ)
    env.update(env_extra)
    shards = runner.run_parallel(bins[binname], lines, nshards=nshards, timeout=timeout, env=env)
    reports = 0
    clean = 0
    for sh in shards:
        text = sh.stderr
        bad = ("ERROR: AddressSanitizer" in text or "ERROR: LeakSanitizer" in text or "WARNING: ThreadSanitizer" in text)
        if bad:
            reports += 1
            kind = "asan" if "AddressSanitizer" in text else ("lsan" if "LeakSanitizer" in text else "tsan")
            m = re.search(r"(ERROR: AddressSanitizer: [^\n]*|ERROR: LeakSanitizer: [^\n]*|WARNING: ThreadSanitizer: [^\n]*)", text)
            head = m.group(1) if m else kind
            short = re.sub(r"0x[0-9a-f]+", "ADDR", head)
            short = re.sub(r"\(pid=\d+\)", "", short)
            n_done = len([r for r in sh.runs if r.complete])
            culprit = sh.lines[n_done] if n_done < len(sh.lines) else sh.lines[-1]
            out.violation("%s:%s:%s:%s" % (prop, kind, short[:60].strip(), first_repo_frame(text)), "%s on flavour %s" % (head, flavour),
                          {"engine": flavour, "bin": binname, "cfg": culprit, "report": text[-4000:]})
        elif not sh.conclusive:
            out.inconclusive_shard("engine=%s shard: done=%s rc=%s timeout=%s stderr=%s" % (flavour, sh.done, sh.returncode, sh.timed_out, text[-300:].replace("\n", " | ")))
        else:
            clean += 1
    if judge_checks is not None:
        agg = loopcheck.judge_runs(prop, [s for s in shards if s.conclusive], out, checks=judge_checks, engine=flavour)
        merge(out.extra.setdefault(flavour + "_observed", {}), agg)
    out.extra[marker or flavour] = {"shards": len(shards), "clean_shards": clean, "shards_with_reports": reports,
                                    "configs": len(lines), "runs_completed": sum(len([r for r in s.runs if r.complete]) for s in shards)}
    return shards


ASAN_ENV = {"ASAN_OPTIONS": "detect_leaks=1:halt_on_error=1:abort_on_error=0:detect_stack_use_after_return=1", "LSAN_OPTIONS": "report_objects=1"}
ASAN_ENV_NOLEAK = {"ASAN_OPTIONS": "detect_leaks=0:halt_on_error=1:abort_on_error=0:detect_stack_use_after_return=1"}
TSAN_ENV = {"TSAN_OPTIONS": "halt_on_error=1:second_deadlock_stack=1:report_signal_unsafe=0"}


def c01_sanitizers(tier, seed, out):
    lines = loopgen.gen_c01(tier, seed + 1000)
    if tier == "quick":
        lines = lines[:300]
    else:
        lines = lines[:5000]
    plain = [l for l in lines if "panic=" not in l]
    panics = [l for l in lines if "panic=" in l]
    sanitizer_loop("C01", "asan", "loopdrv", plain, out, ASAN_ENV, judge_checks=LO.ALL_CHECKS["C01"], marker="asan_lsan")
    sanitizer_loop("C01", "asan", "loopdrv", panics, out, ASAN_ENV_NOLEAK, judge_checks=LO.ALL_CHECKS["C01"], marker="asan_panic_plans")
    mlines = loopgen.gen_c01_miri(tier, seed)
    miri_loop("C01", mlines, out)
    out.require("miri_clean_processes", out.extra.get("miri", {}).get("miri_clean", 0), 8)
    if tier == "thorough":
        valgrind_loop("C01", [l for l in loopgen.gen_c01("quick", seed + 5)[:200] if "panic=" not in l], out)


def c08_sanitizers(tier, seed, out):
    lines = loopgen.gen_c08_order(tier, seed + 77)
    lines = [l.replace("fplog=1", "fplog=0") for l in lines][: (24 if tier == "quick" else 300)]
    # keep sleeps short under the sanitizer
    sanitizer_loop("C08", "tsan", "loopdrv", lines, out, TSAN_ENV, marker="tsan")
    mlines = []
    for i, l in enumerate(loopgen.gen_c08_order("quick", seed + 5)):
        c = evlog.parse_cfg(l)
        if c.get("T") == "2":
            c["n"] = "2"
            c["s"] = "1" if i % 2 else "2"
            c["fplog"] = "0"
            c.pop("fpus", None)
            c.pop("fpmask", None)
            mlines.append(" ".join("%s=%s" % kv for kv in c.items()))
    mlines = mlines[: (6 if tier == "quick" else 24)]
    # a few panic scenarios as well: Miri reports a hang as "deadlock"
    pl = [l for l in loopgen.gen_c08_panic("thorough", seed) if " T=2 " in l][: (4 if tier == "quick" else 20)]
    miri_loop("C08", mlines, out, flags="-Zmiri-preemption-rate=0.1", checks=[LO.check_c08_order])
    miri_lines("C08", "loopdrv", pl, out, flags="-Zmiri-preemption-rate=0.05")


def valgrind_loop(prop, lines, out, timeout=1800):
    bins = build.build("release", ["loopdrv"])
    wrapper = ["valgrind", "--error-exitcode=97", "--leak-check=no", "-q"]
    shards = runner.run_parallel(bins["loopdrv"], lines, nshards=NCPU, timeout=timeout, wrapper=wrapper)
    reports = 0
    for sh in shards:
        if sh.returncode == 97 or "== Invalid" in sh.stderr or "uninitialised" in sh.stderr:
            reports += 1
            m = re.search(r"==\d+== ([A-Z][^\n]*)", sh.stderr)
            head = m.group(1) if m else "valgrind error"
            out.violation("%s:valgrind:%s" % (prop, re.sub(r"0x[0-9A-Fa-f]+", "ADDR", head)[:80]), head,
                          {"engine": "valgrind", "bin": "loopdrv", "cfg": sh.lines[0], "report": sh.stderr[-4000:]})
        elif not sh.conclusive:
            out.inconclusive_shard("valgrind shard: rc=%s timeout=%s" % (sh.returncode, sh.timed_out))
    out.extra["valgrind"] = {"shards": len(shards), "shards_with_reports": reports, "configs": len(lines)}
