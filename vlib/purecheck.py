"""C11 (timestamp arithmetic) and C18 (formatting) plus the pure level of C16, via puredrv."""
import math
import os
import random
import struct
import subprocess
from concurrent.futures import ProcessPoolExecutor

from . import build, models, sanit

NCPU = os.cpu_count() or 4
HASH_CAP = 40_000   # per chunk: how many non-trivial queries take part in the global de-duplication
U64 = 2 ** 64 - 1
EDGES64 = [0, 1, 2, 3, 2 ** 31, 2 ** 32 - 1, 2 ** 32, 2 ** 32 + 1, 2 ** 53, 2 ** 63 - 1, 2 ** 63, 2 ** 63 + 1, U64 - 1, U64]
FREQS = [1, 2, 3, 7, 10, 999, 1000, 10 ** 6, 10 ** 9, 2_400_000_000, 2_999_999_999, 3 * 10 ** 9, 10 ** 10, 2 ** 32, 2 ** 63, U64, 10 ** 12, 10 ** 12 + 1]


def ask(exe, queries, wrapper=()):
    p = subprocess.run(list(wrapper) + [exe, "--file", "-"], input="\n".join(queries) + "\n", stdout=subprocess.PIPE, stderr=subprocess.PIPE, text=True, timeout=1800)
    lines = p.stdout.split("\n")
    if p.returncode != 0 or not lines or not any(l.startswith("DONE") for l in lines[-3:]):
        raise RuntimeError("puredrv failed rc=%s stderr=%s" % (p.returncode, p.stderr[-500:]))
    ans = [l for l in lines if l and not l.startswith("DONE")]
    if len(ans) != len(queries):
        raise RuntimeError("puredrv answered %d of %d queries" % (len(ans), len(queries)))
    return ans


def rand_u64(rng):
    k = rng.randrange(8)
    if k == 0:
        return rng.choice(EDGES64)
    if k == 1:
        return max(0, min(U64, rng.choice(EDGES64) + rng.randrange(-3, 4)))
    return rng.getrandbits(rng.randrange(1, 65))


# ----------------------------- C11 ----------------------------------------

def c11_chunk(args):
    exe, seed, n = args
    rng = random.Random(seed)
    qs = []
    meta = []
    for _ in range(n):
        kind = rng.randrange(10)
        f = rng.choice(FREQS) if rng.random() < 0.6 else max(1, rand_u64(rng))
        if kind < 5:
            a, b = rand_u64(rng), rand_u64(rng)
            if rng.random() < 0.7 and a > b:
                a, b = b, a
            qs.append("D %d %d %d" % (b, a, f))
            meta.append(("D", a, b, f))
        elif kind < 7:
            # additivity + monotonicity: a <= b <= c
            x = sorted([rand_u64(rng), rand_u64(rng), rand_u64(rng)])
            a, b, c = x
            qs += ["D %d %d %d" % (b, a, f), "D %d %d %d" % (c, b, f), "D %d %d %d" % (c, a, f)]
            meta += [("D", a, b, f), ("D", b, c, f), ("ADD", a, b, c, f)]
        elif kind < 8:
            # translation invariance
            a, b = sorted([rand_u64(rng), rand_u64(rng)])
            k = rng.randrange(0, U64 - b + 1)
            qs += ["D %d %d %d" % (b, a, f), "D %d %d %d" % (b + k, a + k, f)]
            meta += [("D", a, b, f), ("TRANS", a, b, k, f)]
        elif kind == 8 and rng.random() < 0.5:
            # the OS-timer arm of the same wrapper: Instants a and b nanoseconds after a fixed one; (b - a) * 1000 ps, 0 if b < a
            a, b = rand_u64(rng), rand_u64(rng)
            r = rng.random()
            if r < 0.4:
                # spans around 2^64 ps (18,446,744,073,709,551.6 ns) and other word boundaries of the picosecond value
                span = rng.choice([2 ** 64 // 1000, 2 ** 63 // 1000, 2 ** 32 // 1000, 2 ** 53, 2 ** 54]) + rng.choice([-2, -1, 0, 1, 2, 1000, rng.randrange(10 ** 6)])
                a = rng.choice([0, 1, 10 ** 9, rng.getrandbits(40)])
                b = min(U64, a + max(span, 0))
            elif r < 0.7 and a > b:
                a, b = b, a
            qs.append("O %d %d" % (b, a))
            meta.append(("O", a, b))
        else:
            secs = rng.choice([0, 1, 59, 2 ** 32, U64, rng.getrandbits(rng.randrange(1, 65))])
            nanos = rng.choice([0, 1, 999, 999_999_999, rng.randrange(10 ** 9)])
            r = rng.random()
            if r < 0.3:
                # total nanoseconds next to a power of two (carries between the seconds and the sub-second part)
                tot = 2 ** rng.choice([31, 32, 53, 63, 64, 64, 64, 65, 73, 93]) + rng.choice([-2, -1, 0, 1, 2, rng.randrange(10 ** 9), -rng.randrange(10 ** 9)])
                secs, nanos = min(max(tot, 0) // 10 ** 9, U64), max(tot, 0) % 10 ** 9
            elif r < 0.45:
                # the whole-seconds value at which seconds * 10^9 stops fitting into 64 bits, with every kind of sub-second part
                secs = U64 // 10 ** 9 + rng.choice([-1, 0, 0, 0, 1])
                nanos = rng.choice([0, 709_551_614, 709_551_615, 709_551_616, 999_999_999, rng.randrange(10 ** 9)])
            qs.append("F %d %d" % (secs, nanos))
            meta.append(("F", secs, nanos))
    ans = ask(exe, qs)
    bad = []
    stats = {"D": 0, "ADD": 0, "TRANS": 0, "F": 0, "O": 0, "b_lt_a": 0, "over_2_64_ps": 0, "os_spans_over_2_64_ps": 0}
    for i, m in enumerate(meta):
        stats[m[0]] += 1
        got = ans[i]
        if m[0] == "O":
            _, a, b = m
            exp = (b - a) * 1000 if b >= a else 0
            if exp > 2 ** 64:
                stats["os_spans_over_2_64_ps"] += 1
            if got != str(exp):
                bad.append(("os_timer_conversion", "OS timer: Instants %d ns and %d ns after one fixed instant differ by %s ps, exact %d" % (a, b, got, exp), qs[i]))
        elif m[0] == "D":
            _, a, b, f = m
            exp = models.tsc_duration(b, a, f)
            if b < a:
                stats["b_lt_a"] += 1
            if exp > 2 ** 64:
                stats["over_2_64_ps"] += 1
            if got != str(exp):
                bad.append(("conversion", "duration_since(b=%d, a=%d, f=%d) = %s, exact floor((b-a)*10^12/f) = %d" % (b, a, f, got, exp), qs[i]))
        elif m[0] == "ADD":
            _, a, b, c, f = m
            try:
                d1, d2, d3 = int(ans[i - 2]), int(ans[i - 1]), int(got)
            except ValueError:
                bad.append(("panic", "conversion panicked: %s" % got, qs[i]) if "PANIC" in got else ("conversion", "the two layers of duration_since disagree: %s" % got, qs[i]))
                continue
            if not (d3 - (d1 + d2) in (0, 1)):
                bad.append(("additivity", "d(a,c)=%d, d(a,b)+d(b,c)=%d for a=%d b=%d c=%d f=%d" % (d3, d1 + d2, a, b, c, f), qs[i]))
            if not (d1 <= d3):
                bad.append(("monotonicity", "d(a,b)=%d > d(a,c)=%d with b<=c (a=%d b=%d c=%d f=%d)" % (d1, d3, a, b, c, f), qs[i]))
            exp = models.tsc_duration(c, a, f)
            if got != str(exp):
                bad.append(("conversion", "duration_since(b=%d, a=%d, f=%d) = %s, exact %d" % (c, a, f, got, exp), qs[i]))
        elif m[0] == "TRANS":
            _, a, b, k, f = m
            if ans[i - 1] != got:
                bad.append(("translation", "d(a,b)=%s but d(a+k,b+k)=%s (a=%d b=%d k=%d f=%d)" % (ans[i - 1], got, a, b, k, f), qs[i]))
        else:
            _, secs, nanos = m
            exp = (secs * 10 ** 9 + nanos) * 1000
            if got != str(exp):
                bad.append(("duration_conv", "Duration(%d s, %d ns) -> %s ps, exact %d" % (secs, nanos, got, exp), qs[i]))
    nontrivial = [hash(q) & 0xFFFFFFFFFFFF for q, a in zip(qs, ans) if a not in ("0",)]
    return bad[:20], stats, qs[:2], nontrivial[:HASH_CAP]


def c11_end_to_end(tier, seed, out):
    """The same arithmetic where a user meets it: recorded sample durations of a real loop on a virtual counter of frequency f
    must be floor(ticks * 10^12 / f) of the window the event log shows (the frequency travels through Timer::get_tsc, the
    readings through Timestamp::duration_since)."""
    from . import loopcheck, loopgen, loop_oracle as LO

    lines = loopgen.gen_c11_e2e(tier, seed)
    before = out.evaluations
    shards, agg = loopcheck.run_native("C11", lines, out, checks=[LO.check_c11_chain])
    out.extra["end_to_end"] = {"loop_runs": out.evaluations - before, "recorded_samples_compared": agg.get("e2e_samples", 0),
                               "frequencies": sorted({int(l.split(" freq=")[1].split(" ")[0]) for l in lines})[:40]}
    out.require("e2e_recorded_samples", agg.get("e2e_samples", 0), 100)
    # ... and where a Duration option (max_time / min_time) is converted: limits one nanosecond above a round boundary, at values
    # that binary floating point cannot carry through a multiplication by 10^9
    blines = loopgen.gen_budget_conversion(tier, seed)
    before = out.evaluations
    shards, bagg = loopcheck.run_native("C11", blines, out, checks=[LO.check_c11_budget])
    out.extra["end_to_end"]["budget_conversion_runs"] = out.evaluations - before
    out.require("budget_conversion_runs", out.evaluations - before, 30)


def c11_precision(exe, tier, seed, out):
    rng = random.Random(seed * 31 + 11)
    n = 120 if tier == "quick" else 3000
    qs, meta = [], []
    for _ in range(n):
        q = rng.choice([1, 1, 2, 3, 4, 7, 10, 16, 33, 100, 1000])
        delta = rng.choice([1, max(1, q // 10), max(1, q // 3), max(1, q // 2), q])
        if q >= 100 and delta * 20 < q:
            delta = max(1, q // 20)
        late = ""
        if _ % 10 == 7:
            # a coarse clock with cheap reads at first: whole batches of samples see no tick at all; later reads cost a
            # good part of a step (the step itself stays uniform), so that the measurement terminates quickly
            delta = rng.choice([1, 1, 2])
            q = rng.choice([10 ** 6, 10 ** 7, 10 ** 8]) * delta
            late = " %d %d" % (rng.choice([20_000, 20_500, 25_000, 40_000, 80_000]), q // rng.choice([2, 3, 5]) + 1)
        freq = rng.choice([1, 1000, 10 ** 6, 10 ** 9, 2_400_000_000, 3 * 10 ** 9, 10 ** 10, 10 ** 12])
        base = rng.choice([0, 1, 999, 10 ** 6, 2 ** 40]) + rng.randrange(0, q)
        if (q * models.PICOS) // freq == 0:
            continue
        qs.append("P %d %d %d %d%s" % (freq, delta, q, base, late))
        meta.append((freq, delta, q))
    ans = ask(exe, qs)
    steps = set()
    for (freq, delta, q), got, query in zip(meta, ans, qs):
        exp = (q * models.PICOS) // freq
        steps.add((q, delta, freq))
        out.evaluations += 1
        if got != str(exp):
            out.violation("C11:precision", "timer with uniform step of %d ticks (read cost %d ticks, %d Hz) reports precision %s ps, the step is %d ps" % (q, delta, freq, got, exp),
                          {"engine": "release", "bin": "puredrv", "query": query})
    out.extra["precision_clocks"] = len(meta)
    out.extra["precision_coarse_clocks"] = sum(1 for (_, d, q) in meta if q >= 20_000 * d)
    out.extra["precision_distinct_clocks"] = len(steps)
    for s in list(steps)[:3]:
        out.add_sample({"clock": {"step_ticks": s[0], "read_cost_ticks": s[1], "frequency": s[2]}})
    return len(steps)


# ----------------------------- C18 ----------------------------------------

def rand_picos(rng):
    k = rng.randrange(10)
    unit = rng.choice(models.UNITS)[1]
    if k == 0:
        return max(0, unit + rng.randrange(-3, 4))
    if k == 1:
        return max(0, unit * rng.choice([1, 9, 10, 99, 100, 999, 1000, 9999, 10000, 99999]) + rng.randrange(-2, 3))
    if k == 2:
        e = rng.randrange(0, 39)
        return max(0, min(2 ** 128 - 1, 10 ** e + rng.randrange(-2, 3)))
    if k == 3:
        return rng.choice([0, 1, 999, 1000, 2 ** 64 - 1, 2 ** 64, 2 ** 127, 2 ** 128 - 1, 86400 * 10 ** 12 * 10 ** 4, 86400 * 10 ** 12 * 10 ** 4 - 1])
    if k == 4:
        # values whose quotient sits just around a truncation boundary
        j = rng.randrange(1, 10 ** 4)
        return max(0, (unit * j) // rng.choice([1, 10, 100, 1000]) + rng.randrange(-1, 2))
    return rng.getrandbits(rng.randrange(1, 129))


def f64_bits(x):
    return "%016x" % struct.unpack("<Q", struct.pack("<d", x))[0]


def rand_f64(rng):
    k = rng.randrange(9)
    if k == 0:
        return float(rng.choice([0, 1, 999, 1000, 1023, 1024, 1025, 10 ** 6, 2 ** 20, 10 ** 9, 2 ** 30, 10 ** 12, 2 ** 40, 10 ** 15, 2 ** 50, 10 ** 18]))
    if k == 1:
        b = rng.choice([1000.0, 1024.0]) ** rng.randrange(0, 7)
        return b * rng.choice([1.0, 0.9999999, 1.0000001, 9.9995, 9.9999, 99.995, 999.95, 999.9999])
    if k == 2:
        return float("inf") if rng.random() < 0.2 else rng.random()
    if k == 3:
        return math.ldexp(rng.random(), rng.randrange(-60, 200))
    if k == 4:
        return float(rng.getrandbits(rng.randrange(1, 64)))
    if k == 5:
        return rng.randrange(0, 10 ** 7) / 10 ** rng.randrange(0, 7)
    return rng.random() * 10 ** rng.randrange(0, 25)


def c18_chunk(args):
    exe, seed, n = args
    rng = random.Random(seed)
    qs, meta = [], []
    for _ in range(n):
        kind = rng.randrange(10)
        if kind < 5:
            p = rand_picos(rng)
            qs.append("T %d" % p)
            meta.append(("T", p))
        elif kind < 8:
            k = rng.randrange(4)
            count = rng.choice([0, 1, 7, 1000, 2 ** 32, U64]) if rng.random() < 0.4 else rng.getrandbits(rng.randrange(1, 65))
            p = rand_picos(rng) if rng.random() < 0.7 else rng.choice([0, 1, 1000, 10 ** 12])
            b = rng.randrange(2)
            qs.append("H %d %d %d %d" % (k, count, p, b))
            meta.append(("H", k, count, p, b))
        elif kind < 9:
            v = rand_f64(rng)
            b = rng.randrange(2)
            qs.append("B %s %d" % (f64_bits(v), b))
            meta.append(("B", v, b))
        else:
            v = rand_f64(rng)
            qs.append("X %s 4" % f64_bits(v))
            meta.append(("X", v))
    ans = ask(exe, qs)
    bad = []
    stats = {"T": 0, "H": 0, "B": 0, "X": 0, "units": set(), "inf": 0, "zero": 0}
    for m, got, q in zip(meta, ans, qs):
        stats[m[0]] += 1
        if m[0] == "T":
            exp = models.fmt_duration(m[1])
            stats["units"].add(exp.split(" ")[1])
            if got != exp:
                bad.append(("duration", "%d ps printed as '%s', the truthful truncation is '%s'" % (m[1], got, exp), q))
        elif m[0] == "H":
            err = models.check_throughput(got, m[1], m[2], m[3], bool(m[4]))
            if got.startswith("inf"):
                stats["inf"] += 1
            if got.startswith("0 "):
                stats["zero"] += 1
            stats["units"].add(got.split(" ", 1)[1] if " " in got else got)
            if err:
                bad.append(("throughput", "count=%d over %d ps (kind %d, binary=%d): %s" % (m[2], m[3], m[1], m[4], err), q))
        elif m[0] == "B":
            err = models.check_bytes(got, m[1], bool(m[2]))
            stats["units"].add(got.split(" ", 1)[1] if " " in got else got)
            if err:
                bad.append(("bytes", "%r bytes (binary=%d): %s" % (m[1], m[2], err), q))
        else:
            err = models.check_plain(got, m[1])
            if err:
                bad.append(("number", "%r: %s" % (m[1], err), q))
    stats["units"] = sorted(stats["units"])
    nontrivial = [hash(q) & 0xFFFFFFFFFFFF for q, a in zip(qs, ans) if not a.startswith("0 ")]
    return bad[:20], stats, [[q, a] for q, a in list(zip(qs, ans))[:3]], nontrivial[:HASH_CAP]


def fan_out(fn, exe, seed, total, chunk):
    jobs = [(exe, seed * 1_000_003 + i, chunk) for i in range(max(1, total // chunk))]
    with ProcessPoolExecutor(max_workers=NCPU) as ex:
        return list(ex.map(fn, jobs))


def miri_pure(prop, queries, out):
    """The same functions under the interpreter (get_unchecked tokenizer, SplitVec, formatting)."""
    args = []
    build.miri_prebuild("puredrv")
    rc, so, se, to, wall = sanit.miri_run("puredrv", sum((["--q", q] for q in queries), []), "", 900)
    if to:
        out.inconclusive_shard("miri watchdog on puredrv")
        return 0
    if rc != 0:
        d = sanit.classify_miri(se)
        if d is None:
            out.inconclusive_shard("miri exited %s without a diagnostic: %s" % (rc, se[-300:]))
        else:
            out.violation("%s:miri:%s:%s" % (prop, d[0], d[2]), "Miri: %s (at %s)" % (d[1], d[2]), {"engine": "miri", "bin": "puredrv", "queries": queries[:10], "stderr": se[-3000:]})
        return 0
    ans = [l for l in so.split("\n") if l and not l.startswith("DONE")]
    out.extra["miri"] = {"queries": len(queries), "answers": len(ans), "seconds": round(wall, 1)}
    return ans


def check(prop, tier, seed, out):
    bins = build.build("release", ["puredrv"])
    exe = bins["puredrv"]
    if prop == "C11":
        total = 300_000 if tier == "quick" else 20_000_000
        res = fan_out(c11_chunk, exe, seed, total, 20_000 if tier == "quick" else 250_000)
        agg = {}
        for bad, stats, sample, hashes in res:
            out.distinct.update(hashes)
            for k, v in stats.items():
                agg[k] = agg.get(k, 0) + v
            for code, msg, q in bad:
                out.violation("C11:" + code, msg, {"engine": "release", "bin": "puredrv", "query": q})
            if len(out.samples) < 3:
                out.add_sample({"queries": sample})
        n = sum(agg.get(k, 0) for k in ("D", "F", "ADD", "TRANS", "O"))
        out.evaluations += n
        out.extra["observed"] = agg
        nclocks = c11_precision(exe, tier, seed, out)
        c11_end_to_end(tier, seed, out)
        out.extra["distinct_note"] = "distinct_nontrivial = globally de-duplicated (48-bit hash) queries with a non-zero result, at most %d per chunk taking part" % HASH_CAP
        out.require("conversions", agg.get("D", 0), 100_000)
        out.require("precision_clocks", nclocks, 30)
        out.require("results_over_2_64_ps", agg.get("over_2_64_ps", 0), 100)
        ans = miri_pure("C11", ["D %d %d %d" % (U64, 0, 1), "D 5 9 3", "D %d %d %d" % (2 ** 63, 1, 10 ** 10), "F %d 999999999" % U64, "P 1000000000 1 3 7"], out)
        out.rule = ("boundary-dense + random (a, b, f) triples against floor((b-a)*10^12/f) in exact integers, metamorphic relations (monotone in b, additivity "
                    "defect in {0,1}, translation invariance), Durations up to Duration::MAX, and the real measure_precision on virtual clocks with uniform "
                    "step q and read cost 1 <= delta <= q; non-trivial = the result is non-zero")
        out.assumptions += ["precision clause decided in the regime where a clock read costs no more than one step (1 <= delta <= q)",
                            "OS-timer path cannot be scripted; only the TSC conversion is judged"]
    else:
        total = 300_000 if tier == "quick" else 12_000_000
        res = fan_out(c18_chunk, exe, seed, total, 20_000 if tier == "quick" else 200_000)
        agg = {}
        units = set()
        for bad, stats, sample, hashes in res:
            out.distinct.update(hashes)
            for k, v in stats.items():
                if k == "units":
                    units.update(v)
                else:
                    agg[k] = agg.get(k, 0) + v
            for code, msg, q in bad:
                out.violation("C18:" + code, msg, {"engine": "release", "bin": "puredrv", "query": q})
            if len(out.samples) < 3:
                out.add_sample({"query_answer_pairs": sample})
        n = sum(agg[k] for k in ("T", "H", "B", "X"))
        out.evaluations += n
        out.extra["distinct_note"] = "distinct_nontrivial = globally de-duplicated (48-bit hash) queries whose answer is not a plain zero, at most %d per chunk taking part" % HASH_CAP
        agg["distinct_units_seen"] = len(units)
        out.extra["observed"] = agg
        out.extra["units_seen"] = sorted(units)[:80]
        out.require("durations", agg.get("T", 0), 100_000)
        out.require("throughputs", agg.get("H", 0), 50_000)
        out.require("distinct_units", len(units), 40)
        out.require("inf_outputs", agg.get("inf", 0), 10)
        miri_pure("C18", ["T 0", "T 999", "T 1000", "T %d" % (2 ** 128 - 1), "T 59999999999999", "H 0 5 0 1", "H 3 %d 1 0" % U64, "B %s 1" % f64_bits(1023.99999),
                          "X %s 4" % f64_bits(0.00009)], out)
        # end to end: the configured byte format has to reach the table (CLI flag, DIVAN_BYTES_FORMAT, builder call before the
        # command line is read), and the printed byte / throughput cells are judged against figures known from the spec
        from . import treecheck
        jobs = [j for j in treecheck.make_jobs("C20", "quick" if tier == "quick" else "thorough", seed + 318) if j[1].intent.action == "bench"]
        if tier == "quick":
            jobs = jobs[:200]
        else:
            jobs = jobs[:3000]
        e2e, _, _ = treecheck.run_jobs("C18", jobs, out, want={"C18"})
        out.extra["end_to_end"] = {"bench_runs": len(jobs), "binary_format_runs": sum(1 for j in jobs if j[1].intent.binary), "rows_checked": e2e.get("rows_checked", 0),
                                   "byte_format_channels": sorted({("cli" if "--bytes-format" in j[1].cli else "env" if "DIVAN_BYTES_FORMAT" in j[1].env else "builder")
                                                                   for j in jobs if any(b[0] == "bytes_format" for b in j[1].builder) or "--bytes-format" in j[1].cli or "DIVAN_BYTES_FORMAT" in j[1].env})}
        out.require("e2e_rows_checked", e2e.get("rows_checked", 0), 100)
        out.rule = ("durations: exact integer oracle over every unit boundary +-{0..3}, k*unit around 10^j, 10^e +-2 for e<=38, u128::MAX and random values of "
                    "every bit length; throughput/bytes/plain numbers: printed text parsed back and checked against the exact rational (prefix, <= exact, "
                    "< one unit of the last allowed place below, no trailing zeros/exponent, 0 and inf cases, no panic); distinct = generated queries")
        out.assumptions += ["float path judged up to 1e-11 relative tolerance (double rounding of count, 10^12/picos and the scale division)",
                            "only the default formatting used by the table is judged"]


def replay(prop, rp, out):
    if rp["first"]["replay"].get("bin") == "loopdrv":
        from . import loopcheck
        return loopcheck.replay(prop, rp, out)
    if rp["first"]["replay"].get("bin") == "treedrv":
        from . import treecheck
        return treecheck.replay(prop, rp, out)
    bins = build.build("release", ["puredrv"])
    q = rp["first"]["replay"].get("query")
    ans = ask(bins["puredrv"], [q])
    out.extra["replayed"] = {"query": q, "answer": ans[0]}
    out.evaluations = 1
    # re-judge through the ordinary path
    check(prop, "quick", rp.get("seed", 1), out)
