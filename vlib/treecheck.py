"""C13 C14 C15 C16 C17 C20 (and end-to-end slices of C03/C05) on synthetic registries via treedrv."""
import os
import random
from concurrent.futures import ThreadPoolExecutor

from . import build, treegen as TG, treejudge as TJ, treemodel as TM, treerun as TR, tree_parse

NCPU = os.cpu_count() or 4

PROFILES = {
    "C13": dict(spec=dict(p_ig=0.15, p_args=0.35, p_generic=0.25, max_benches=14, p_time=0.1), cfg=dict(actions=["test", "test", "test", "bench", "terse", "list"], p_filters=0.95, p_ignore_flag=0.4, p_sort=0.2, p_timer_flag=0.3)),
    "C14": dict(spec=dict(p_ig=0.35, p_args=0.35, p_generic=0.2, max_benches=12, p_time=0.25, time_kinds=[0, 0, 0, 1, 2], p_coarse_counter=0.6), cfg=dict(actions=["list", "terse", "list_benches"], p_filters=0.5, p_ignore_flag=0.7, p_sort=0.2, p_timer_flag=0.4, p_runner_opts=0.35, p_single_runner_opt=0.2)),
    "C15": dict(spec=dict(p_sc=0.5, p_ss=0.6, p_th=0.35, p_ig=0.25, p_ctr=0.35, p_time=0.25, time_multi=True, p_bcounter=0.25, p_group=0.7, max_benches=10, p_args=0.15, p_generic=0.15, p_coarse_counter=0.2, p_gen_cost=0.5, p_budget_scenario=0.12, p_minmax_scenario=0.12, p_wide_counts=0.06),
                cfg=dict(actions=["bench", "bench", "bench", "test", "list"], p_filters=0.1, p_ignore_flag=0.4, p_sort=0.1, p_runner_opts=0.7, time_opts=True, p_timer_flag=0.3, p_single_runner_opt=0.15,
                         decoys={"sc": [4, 6, 9], "ss": [5, 6], "th": [[1], [5], [2, 3]], "c0": [3], "c1": [3], "c2": [3], "c3": [3]})),
    "C16": dict(spec=dict(p_ig=0.05, p_args=0.4, p_generic=0.3, max_benches=18, min_benches=4), cfg=dict(actions=["test", "list", "test"], p_filters=0.15, p_ignore_flag=0.2, p_sort=0.9)),
    "C17": dict(spec=dict(p_ig=0.05, p_args=0.55, p_generic=0.35, max_benches=10, p_th=0.15), cfg=dict(actions=["test", "test", "bench"], p_filters=0.5, p_ignore_flag=0.3, p_sort=0.7)),
    "C20": dict(spec=dict(p_sc=0.4, p_ss=0.7, p_th=0.3, p_ig=0.2, p_ctr=0.4, p_alloc=0.4, p_bcounter=0.2, max_benches=14, p_args=0.25, p_generic=0.2, p_nobench=0.05, p_inputcounter=0.08, p_huge_time=0.08, p_free_calls=0.12),
                cfg=dict(actions=["bench", "bench", "test", "list"], p_filters=0.3, p_ignore_flag=0.3, p_sort=0.4, p_runner_opts=0.3)),
}


# C04's end-to-end slice: C15's registries with more of the time-budget scenarios, bench runs only
PROFILES["C04"] = dict(spec=dict(PROFILES["C15"]["spec"], p_minmax_scenario=0.35, p_budget_scenario=0.25, p_time=0.4, p_wide_counts=0.0),
                       cfg=dict(PROFILES["C15"]["cfg"], actions=["bench"]))


def bounded(sp, cfg):
    """Keeps bench-action runs small: every benchmark must resolve to an explicit small sample count."""
    it = cfg.intent
    if it.action != "bench":
        return True
    roots = TG.build_tree(sp)
    for c in TG.cases(roots):
        eff = TG.effective_options(c, it.runner_opts)
        n = eff.get("sc", TG.DEFAULT_SAMPLE_COUNT)
        T = max(TG.thread_counts(eff))
        if n > 12 and eff.get("xt") == 1 and c.leaf.bench.beh.get("cost") == 1 and eff.get("ss", 1) <= 65536 and T == 1:
            continue      # a 1 ns max_time ends the run after its first round
        if n > 12:
            return False
        if "ss" not in eff and c.leaf.bench.beh["cost"] < 30:
            return False
        if "mt" in eff and eff["mt"] > 5000:
            return False
    return True


FORCED_PARALLELISM = None


def init_parallelism():
    """`threads = 0` means the available parallelism: ask the standard library what that is here."""
    if FORCED_PARALLELISM is not None:
        TG.PARALLELISM = FORCED_PARALLELISM
        return
    try:
        from . import purecheck
        bins = build.build("release", ["puredrv"])
        TG.PARALLELISM = int(purecheck.ask(bins["puredrv"], ["K"])[0])
    except Exception:
        pass


def restricted_cpu_slice(prop, tier, seed, out):
    """The same registries in a process that may use only some of the machine's CPUs (an affinity mask, as under taskset, a container
    cpuset or a pinned CI runner): `threads = 0` means what the standard library reports as available there, not the machine's size."""
    global FORCED_PARALLELISM
    import subprocess
    from . import purecheck
    cpus = sorted(os.sched_getaffinity(0))
    st = {"cpus_of_this_process": len(cpus), "runs": 0}
    if len(cpus) < 6:
        st["skipped"] = "fewer than 6 CPUs to restrict from"
        out.extra["restricted_cpus"] = st
        return st
    mask = ",".join(map(str, cpus[1:4]))     # three CPUs, not starting at the first
    bins = build.build("release", ["puredrv"])
    try:
        p = subprocess.run(["taskset", "-c", mask, bins["puredrv"], "--q", "K"], stdout=subprocess.PIPE, stderr=subprocess.PIPE, timeout=60)
        par = int(p.stdout.decode().split("\n")[0])
    except Exception as e:
        st["skipped"] = "taskset / probe failed: %s" % e
        out.extra["restricted_cpus"] = st
        return st
    st["mask"], st["available_parallelism_under_mask"] = mask, par
    FORCED_PARALLELISM = par
    try:
        jobs = [j for j in make_jobs(prop, "quick", seed + 700) if j[1].intent.action in ("bench", "test")]
        jobs = jobs[:120 if tier == "quick" else 1200]
        for sp, cfg in jobs:
            cfg.affinity = mask
        agg, _, _ = run_jobs(prop, jobs, out, want={prop})
        st["runs"] = agg.get("executions", 0)
        st["thread_branches"] = agg.get("thread_branches", 0)
    finally:
        FORCED_PARALLELISM = None
        init_parallelism()
    out.extra["restricted_cpus"] = st
    return st


def make_jobs(prop, tier, seed):
    init_parallelism()
    rng = random.Random(seed * 50021 + int(prop[1:]))
    prof = PROFILES[prop]
    ntrees = {"quick": 120, "thorough": 2500}[tier]
    if tier == "quick" and prop in ("C14", "C20"):
        ntrees = 360      # these profiles cost a couple of seconds per hundred registries
    per_tree = {"quick": 4, "thorough": 8}[tier]
    jobs = []
    for t in range(ntrees):
        sp = TG.gen_spec(rng, prof["spec"])
        if not sp.benches:
            continue
        for _ in range(per_tree):
            cfg = TR.gen_config(rng, sp, prof["cfg"])
            if cfg.intent.action == "bench":
                # make sure the run is small: give the runner a sample count if none resolves
                if not bounded(sp, cfg):
                    cfg.cli += ["--sample-count", str(rng.choice([1, 2, 3, 5]))]
                    cfg.intent.runner_opts["sc"] = int(cfg.cli[-1])
                    cfg.env.pop("DIVAN_SAMPLE_COUNT", None)
                    cfg.builder = [b for b in cfg.builder if b[0] != "sample_count"]
                    if not bounded(sp, cfg):
                        continue
            cfg.job_ref = {"profile": prop, "tier": tier, "seed": seed, "index": len(jobs)}
            jobs.append((sp, cfg))
    return jobs


def bulk_jobs(seed):
    """One registry, one benchmark, 2^32 (and a little more) real calls: sample_count x sample_size x rounds beyond 32 bits with nothing
    cutting the run short. Counts only (the body keeps one counter per thread), so the whole run takes seconds."""
    init_parallelism()
    rng = random.Random(seed * 7001 + 3)
    jobs = []
    for k, (n, s) in enumerate([(16, 1 << 28)]):
        sp = TG.Spec()
        sp.clock = (10 ** 9, 1, 1, 1000)
        sp.clock_os = False
        b = TG.Bench(0, [sp.crate, "bulk"], "whole", "whole", "src/a.rs", 3, 1, {"sc": n, "ss": s, "th": [0]},
                     {"cost": 0, "step": 0, "mod": 1, "mode": 0})
        b.order = 0
        sp.items = [b]
        sp.benches = [b]
        sp.bulk = True
        cfg = TR.Config()
        cfg.intent.action = "bench"
        cfg.cli = ["--bench", "--timer", "tsc"]
        cfg.job_ref = {"profile": "bulk", "tier": "quick", "seed": seed, "index": k}
        jobs.append((sp, cfg))
    return jobs


def concurrent_use_slice(prop, tier, seed, out):
    """Entry points used from several threads at once. C12: the registries are filled by 8 threads that push at the same moment
    (constructors of libraries loaded in parallel); every entry is still there exactly once (case set of the terse listing).
    C17: four threads run test_benches() / list_benches() on one runner at the same time, argument lists take 25 ms to
    evaluate; each list is still evaluated once per process."""
    init_parallelism()
    rng = random.Random(seed * 90001 + int(prop[1:]))
    bins = build.build("native", ["treedrv"])
    exe = bins["treedrv"]
    n = {"quick": 40, "thorough": 600}[tier]
    jobs = []
    while len(jobs) < n:
        sp = TG.gen_spec(rng, dict(PROFILES["C17"]["spec"], p_ig=0.0, min_benches=6, max_benches=16))
        if not sp.benches:
            continue
        cfg = TR.Config()
        if prop == "C12":
            sp.parreg = 8
            cfg.intent.action = "terse"
            cfg.intent.ignore_mode = "include"
            cfg.cli = ["--list", "--format", "terse", "--include-ignored"]
            cfg.env = {"NEXTEST": "1"}
        else:
            if not any(b.kind == "args" and b.args for b in sp.benches):
                continue
            cfg.run_mode = "partest"
            cfg.intent.action = "test"
            cfg.cli = ["--test"]
            cfg.env = {"VERIF_ARGS_SLEEP_MS": "25"}
        jobs.append((sp, cfg))

    def one(job):
        sp, cfg = job
        return job, TR.run(exe, sp, cfg)

    with ThreadPoolExecutor(max_workers=NCPU if prop == "C12" else 4) as ex:
        results = list(ex.map(one, jobs))
    st = {"runs": 0, "entries_pushed_concurrently": 0, "argument_lists_evaluated": 0}
    for (sp, cfg), res in results:
        out.evaluations += 1
        if res.rc != 0:
            out.inconclusive_shard("concurrent-use run failed rc=%s: %s" % (res.rc, res.stderr[-200:].replace("\n", " | ")))
            continue
        st["runs"] += 1
        if prop == "C12":
            st["entries_pushed_concurrently"] += len(sp.items)
            want = sorted(c.path() for c in TG.cases(TG.build_tree(sp)))
            listed = sorted(l[:-len(": benchmark")] for l in (getattr(res, "terse", None) or []) if l.endswith(": benchmark"))
            if listed != want:
                missing = [p for p in want if p not in listed]
                extra = [p for p in listed if p not in want]
                out.violation("C12:concurrent_registration", "%d entries pushed from 8 threads at once: cases %s are missing from the registry, %s are there without having been written" % (
                    len(sp.items), missing[:4], extra[:4]), replay_payload(sp, cfg, res))
        else:
            counts = {}
            # (four trees are printed over each other; only the invocation log after the marker is read)
            from . import tree_parse
            _, _, tail = res.stdout.partition(tree_parse.MARK_LOG)
            for ln in tail.split("\n"):
                p = ln.split(" ")
                if p[0] == "args_eval":
                    counts[int(p[1])] = counts.get(int(p[1]), 0) + 1
            st["argument_lists_evaluated"] += len(counts)
            for bid, k in counts.items():
                if k > 1:
                    out.violation("C17:args_evaluated_twice", "argument list of bench %d was evaluated %d times in one process (four threads using one runner at the same time)" % (bid, k),
                                  replay_payload(sp, cfg, res))
    out.extra["concurrent_use"] = st
    out.require("concurrent_use_runs", st["runs"], int(0.8 * n))


def replay_payload(sp, cfg, res):
    return {"engine": "native", "bin": "treedrv", "spec": res.spec_text, "config": cfg.describe(), "stdout": res.stdout[-6000:], "stderr": res.stderr[-1500:],
            "job": getattr(cfg, "job_ref", None), "affinity": getattr(cfg, "affinity", None),
            "parallelism": TG.PARALLELISM}


def run_jobs(prop, jobs, out, want=None, extra=None):
    init_parallelism()
    bins = build.build("native", ["treedrv"])
    exe = bins["treedrv"]

    def one(job):
        sp, cfg = job
        return job, TR.run(exe, sp, cfg, timeout=900 if getattr(sp, "bulk", False) else 120)

    with ThreadPoolExecutor(max_workers=NCPU) as ex:
        results = list(ex.map(one, jobs))
    agg = {}
    for (sp, cfg), res in results:
        out.evaluations += 1
        it = cfg.intent
        if it.action == "terse":
            if prop == "C13":
                c13_terse(sp, cfg, res, out, agg)
            continue
        vs, obs, incon = TJ.judge(sp, cfg, res, want=want or {prop})
        if incon:
            out.inconclusive_shard("treedrv run not judged (%s) cli=%s" % (incon[:200], cfg.cli))
            continue
        for k, v in obs.items():
            agg[k] = agg.get(k, 0) + v
        agg["action_" + it.action] = agg.get("action_" + it.action, 0) + 1
        if obs["nodes"] > 1:
            out.distinct.add((hash(res.spec_text) & 0xFFFFFFFF, tuple(cfg.cli), tuple(sorted(cfg.env.items())), tuple(map(tuple, cfg.builder)), cfg.run_mode))
        for v in vs:
            if v.prop == prop:
                out.violation(v.sig(), v.msg, replay_payload(sp, cfg, res))
        if len(out.samples) < 4 and obs["nodes"] > 3:
            out.add_sample({"config": cfg.describe(), "benches": len(sp.benches), "groups": len(sp.groups), "observed": obs,
                            "stdout_head": res.stdout.split("\n")[:6]})
        if extra is not None:
            extra(sp, cfg, res, exe)
    return agg, results, exe


def c13_terse(sp, cfg, res, out, agg):
    """The terse listing is a second place where selection shows: it must name exactly the selected cases that would run."""
    if res.rc != 0 or res.terse is None:
        out.inconclusive_shard("terse listing exited %s: %s" % (res.rc, res.stderr[-200:]))
        return
    it = cfg.intent
    eroots, executions, mroots, sel = TM.expected_tree(sp, it_for_test(it))
    want = sorted({ex_["case"].path() for ex_ in executions})
    listed = sorted({l[:-len(": benchmark")] for l in res.terse if l.endswith(": benchmark")})
    agg["terse_listings"] = agg.get("terse_listings", 0) + 1
    agg["terse_lines"] = agg.get("terse_lines", 0) + len(listed)
    extra = [p for p in listed if p not in want]
    missing = [p for p in want if p not in listed]
    if extra:
        out.violation("C13:terse_shows_unselected", "terse listing shows %s which the filters / ignore flags exclude (cli %s)" % (extra[:4], cfg.cli), replay_payload(sp, cfg, res))
    if missing:
        out.violation("C13:terse_misses_selected", "terse listing lacks the selected cases %s (cli %s)" % (missing[:4], cfg.cli), replay_payload(sp, cfg, res))


# ---------------------------------------------------------------------------
# C14: listing runs nothing and agrees with a run
# ---------------------------------------------------------------------------

def c14_differential(prop, results, exe, out, tier, seed):
    """terse listing == cases a --test run with the same filters / ignore flags executes; --exact round trip."""
    rng = random.Random(seed + 14)
    stats = {"terse_runs": 0, "terse_lines": 0, "roundtrips": 0, "list_runs": 0}
    todo = []
    for (sp, cfg), res in results:
        it = cfg.intent
        if it.action == "list":
            stats["list_runs"] += 1
        if it.action != "terse" or res.rc != 0:
            if it.action == "terse" and res.rc != 0:
                out.inconclusive_shard("terse listing exited %s: %s" % (res.rc, res.stderr[-200:]))
            continue
        todo.append(((sp, cfg), res))

    def test_twin(job_res):
        (sp, cfg), res = job_res
        twin = TR.Config()
        twin.builder = list(cfg.builder)
        twin.env = {k: v for k, v in cfg.env.items() if k != "NEXTEST"}
        twin.cli = [a for a in cfg.cli if a not in ("--list", "--format", "terse")] + ["--test"]
        twin.intent = cfg.intent
        r2 = TR.run(exe, sp, twin)
        return (sp, cfg), res, twin, r2

    with ThreadPoolExecutor(max_workers=NCPU) as ex:
        twins = list(ex.map(test_twin, todo))
    rt_jobs = []
    for (sp, cfg), res, twin, r2 in twins:
        stats["terse_runs"] += 1
        out.evaluations += 1
        lg = TJ.parse_log(res.log)
        if lg["runs"] or lg["enters"]:
            out.violation("C14:terse_invoked", "terse listing invoked %d benchmark bodies" % len(lg["enters"]), replay_payload(sp, cfg, res))
        lines = res.terse
        bad = [l for l in lines if not l.endswith(": benchmark")]
        if bad:
            out.violation("C14:terse_foreign_line", "terse listing printed a line that is not 'path: benchmark': %r" % bad[0], replay_payload(sp, cfg, res))
        listed = sorted(l[:-len(": benchmark")] for l in lines if l.endswith(": benchmark"))
        stats["terse_lines"] += len(listed)
        if r2.rc != 0 or r2.status is None or not r2.status.startswith("status ok"):
            out.inconclusive_shard("twin --test run failed rc=%s status=%s" % (r2.rc, r2.status))
            continue
        # what the test run executed, as display paths
        it = cfg.intent
        eroots, executions, mroots, sel = TM.expected_tree(sp, it_for_test(it))
        by_key = {}
        branches = {}
        for ex_ in executions:
            c = ex_["case"]
            k = (c.leaf.bench.bid, c.arg[1] if c.arg else None, c.leaf.ty, c.leaf.const)
            by_key.setdefault(k, c.path())
            branches[k] = len(TG.thread_counts(ex_["eff"]))
        lg2 = TJ.parse_log(r2.log)
        ran = []
        unknown = 0
        from collections import Counter
        nruns = Counter((r["bid"], r["arg"], r["ty"], r["const"]) for r in lg2["runs"])
        for k, cnt in nruns.items():
            if k in by_key:
                # one case runs once per thread count; equal argument values are distinct cases with one path
                ran += [by_key[k]] * max(1, cnt // max(1, branches.get(k, 1)))
            else:
                unknown += 1
        ran.sort()
        if unknown:
            # (the listing / run comparison is then left undecided; the round trip below still speaks for itself)
            out.inconclusive_shard("twin run executed %d cases the model cannot name" % unknown)
        if not unknown and listed != ran:
            missing = [p for p in ran if p not in listed]
            extra = [p for p in listed if p not in ran]
            code = "terse_misses_cases" if missing and not extra else ("terse_extra_cases" if extra and not missing else "terse_differs")
            detail = classify_terse_diff(sp, it, missing, extra)
            out.violation("C14:%s:%s" % (code, detail), "terse listing differs from what `--test` with the same filters and ignore flags (%s) executes: not listed %s, listed but not run %s" % (
                it.ignore_mode, missing[:4], extra[:4]), replay_payload(sp, cfg, res))
        # "would execute": a listed case whose budget is not zero is really called by the test run (once per thread)
        itt = it_for_test(it)
        for ex_ in executions:
            c = ex_["case"]
            k = (c.leaf.bench.bid, c.arg[1] if c.arg else None, c.leaf.ty, c.leaf.const)
            sim = TM.simulate_execution(ex_, sp, itt)
            if sim is None or not sim.get("calls"):
                continue
            mine = [r for r in lg2["runs"] if (r["bid"], r["arg"], r["ty"], r["const"]) == k]
            if mine and not any(r["calls"] for r in mine):
                stats["listed_never_called"] = stats.get("listed_never_called", 0) + 1
                out.violation("C14:listed_but_never_called", "'%s' is listed, and a test run with the same flags visits it, but never calls its function although its budget is not zero (%s)" % (
                    c.path(), ex_["eff"]), replay_payload(sp, cfg, res))
        # exact round trip on a sample of listed paths (unique paths only)
        uniq = [p for p in listed if listed.count(p) == 1 and not p.split("::")[-1].startswith("-")]
        all_paths = [c.path() for c in TG.cases(mroots)]
        uniq = [p for p in uniq if all_paths.count(p) == 1]
        for p in rng.sample(uniq, min(len(uniq), 2 if tier == "quick" else 4)):
            rt = TR.Config()
            # the program stays the same (its own Divan::skip_* calls included): only the command line changes
            rt.builder = list(cfg.builder)
            rt.env = {k: v for k, v in cfg.env.items() if k != "NEXTEST"}
            keep = []
            flags = [a for a in cfg.cli if a in ("--ignored", "--include-ignored")]
            rt.cli = ["--test", "--exact", p] + flags
            rt_jobs.append(((sp, cfg, res), p, rt))

    def do_rt(j):
        (sp, cfg, res), p, rt = j
        return j, TR.run(exe, sp, rt)

    with ThreadPoolExecutor(max_workers=NCPU) as ex:
        rts = list(ex.map(do_rt, rt_jobs))
    for ((sp, cfg, res), p, rt), r3 in rts:
        stats["roundtrips"] += 1
        out.evaluations += 1
        if r3.rc != 0 or r3.status is None:
            out.inconclusive_shard("round-trip run failed rc=%s" % r3.rc)
            continue
        lg3 = TJ.parse_log(r3.log)
        keys = {(r["bid"], r["arg"], r["ty"], r["const"]) for r in lg3["runs"]}
        roots = TG.build_tree(sp)
        want = [c for c in TG.cases(roots) if c.path() == p]
        wk = {(c.leaf.bench.bid, c.arg[1] if c.arg else None, c.leaf.ty, c.leaf.const) for c in want}
        if keys != wk:
            out.violation("C14:exact_roundtrip", "feeding the listed path '%s' back as the only --exact filter ran %s, expected exactly %s" % (p, sorted(map(str, keys)), sorted(map(str, wk))),
                          replay_payload(sp, rt, r3))
    return stats


def it_for_test(it):
    t = TM.Intent()
    t.action = "test"
    t.runner_opts = dict(it.runner_opts)
    t.filters = it.filters
    t.ignore_mode = it.ignore_mode
    return t


def classify_terse_diff(sp, it, missing, extra):
    """Discriminator for the known-findings key: how the disagreeing cases get their ignore value."""
    roots = TG.build_tree(sp)
    kinds = set()
    for c in TG.cases(roots):
        p = c.path()
        if p in missing or p in extra:
            own = c.leaf.opts is not None and "ig" in c.leaf.opts
            inherited = any(n.opts is not None and "ig" in n.opts for n in c.path_nodes[:-1])
            if own and inherited:
                kinds.add("ignore_overridden_below_group")
            elif inherited:
                kinds.add("ignore_inherited_from_group")
            elif own:
                kinds.add("ignore_set_directly")
            else:
                kinds.add("ignore_unset")
    return "+".join(sorted(kinds)) + ":flags=" + it.ignore_mode


def check(prop, tier, seed, out):
    jobs = make_jobs(prop, tier, seed)
    agg, results, exe = run_jobs(prop, jobs, out)
    out.extra["observed"] = agg
    out.extra["jobs"] = len(jobs)
    out.rule = ("synthetic registries built at run time through divan's doc-hidden registration API (module trees of depth <= 5, groups with custom "
                "names and options, plain / args / generic type / const / type x const entries, names over letters, digit runs, punctuation, non-ASCII) "
                "x seeded configurations (action, filters, ignore flags, sort, runner options via CLI / DIVAN_* / builder); distinct = distinct "
                "(registry, configuration) pairs whose output has more than one node")
    out.assumptions += ["benchmark bodies are synthetic (const-generic fn items reading a spec table); the macro expansion path is covered by the generated-crate checks (C12)",
                        "virtual TSC clock for the bench action; regex filters restricted to syntax on which Python re and regex-lite agree"]
    out.require("judged_runs", sum(v for k, v in agg.items() if k.startswith("action_")), 100)
    if prop in ("C13", "C15", "C16", "C17", "C20"):
        # the macro-expansion path: the same oracles on generated crates
        from . import cratecheck
        g = cratecheck.macro_slice(prop, tier, seed, out)
        out.require("generated_crate_nodes", g.get("nodes", 0), 200)
    if prop == "C15":
        st = restricted_cpu_slice(prop, tier, seed, out)
        if "skipped" not in st:
            out.require("restricted_cpu_executions", st["runs"], 50)
    if prop == "C17":
        concurrent_use_slice(prop, tier, seed, out)
    if prop == "C13":
        out.require("cases_selected", agg.get("cases_selected", 0), 300)
        out.require("executions", agg.get("executions", 0), 300)
        filter_pure_level(tier, seed, out)
    elif prop == "C14":
        st = c14_differential(prop, results, exe, out, tier, seed)
        out.extra["listing"] = st
        out.require("terse_listings_compared", st["terse_runs"], 30)
        # the macro-expansion path (one argument list shared by all instantiations of a generic benchmark): listing vs. real calls
        from . import cratecheck
        g = cratecheck.c14_macro_slice(tier, seed, out)
        out.extra["generated_crates"] = g
        out.require("generated_crate_listings_compared", g.get("listings_compared", 0), 3)
        out.require("exact_roundtrips", st["roundtrips"], 20)
        out.require("list_runs", st["list_runs"], 30)
    elif prop == "C15":
        out.require("option_fields_resolved", agg.get("option_fields_resolved", 0), 500)
        out.require("thread_branches", agg.get("thread_branches", 0), 50)
        out.require("ignored_marks", agg.get("ignored_marks", 0), 20)
    elif prop == "C16":
        out.require("sibling_pairs", agg.get("sibling_pairs", 0), 500)
        out.require("arg_lists", agg.get("arg_lists", 0), 50)
        from . import sortcheck
        sortcheck.pure_level(tier, seed, out)
    elif prop == "C17":
        out.require("labels_checked", agg.get("labels_checked", 0), 500)
        from . import sortcheck
        sortcheck.args_probe_miri(out)
    elif prop == "C20":
        out.require("cells_checked", agg.get("cells_checked", 0), 500)
        out.require("rows_checked", agg.get("rows_checked", 0), 100)
        out.require("nodes", agg.get("nodes", 0), 2000)


def replay(prop, rp, out):
    r = rp["first"]["replay"]
    job = r.get("job")
    if job:
        global FORCED_PARALLELISM
        if r.get("affinity"):
            FORCED_PARALLELISM = r.get("parallelism")     # the job ran under a CPU mask: regenerate and run it under the same
        # registries and configurations are regenerated deterministically from (profile, tier, seed); run that one job again
        jobs = bulk_jobs(job["seed"]) if job["profile"] == "bulk" else make_jobs(job["profile"], job["tier"], job["seed"])
        if job["index"] < len(jobs):
            if r.get("affinity"):
                jobs[job["index"]][1].affinity = r["affinity"]
            agg, results, exe = run_jobs(prop, [jobs[job["index"]]], out)
            FORCED_PARALLELISM = None
            out.extra["observed"] = agg
            out.extra["replayed_job"] = job
            if prop == "C14":
                c14_differential(prop, results, exe, out, "quick", job["seed"])
            return
    out.extra["note"] = "no job reference in the replay file: re-running the quick tier with the recorded seed"
    check(prop, "quick", rp.get("seed", 1), out)


def filter_pure_level(tier, seed, out):
    """FilterSet::is_match (SplitVec behind it) against the per-path rule, on many (filter set, path) pairs; Miri on a few."""
    from . import purecheck
    bins = build.build("release", ["puredrv"])
    rng = random.Random(seed * 313 + 13)
    hx = lambda s: s.encode("utf-8").hex() if s else "-"
    n = 4000 if tier == "quick" else 150000
    qs, meta = [], []
    paths = ["a", "a::b", "a::b1", "a::b10", "crate::m::x", "crate::m::x::1", "crate::m::y", "é::ß", "a::b::c::d", "x10", "x9"]
    pats = ["a", "b", "b1", "b1$", "^a", "a::b", "a::b1", "x", "^crate::m::x$", "m::.", "[0-9]+$", "(x|y)$", "z", "é", "b10?", "crate::m::x::1", "::"]
    for _ in range(n):
        path = rng.choice(paths)
        k = rng.randrange(0, 6)
        fl = []
        for _ in range(k):
            regex = rng.random() < 0.6
            incl = rng.random() < 0.5
            pat = rng.choice(pats) if regex else rng.choice(paths + ["a::b1", "nope"])
            fl.append((regex, incl, pat))
        qs.append("M %s %d %s" % (hx(path), len(fl), " ".join("%d %d %s" % (int(r), int(i), hx(p)) for r, i, p in fl)))
        meta.append((path, fl))
    ans = purecheck.ask(bins["puredrv"], qs)
    import re as _re
    checked = 0
    for (path, fl), got, q in zip(meta, ans, qs):
        if got == "BADREGEX":
            continue
        m = lambda r, p: (_re.search(p, path) is not None) if r else (p == path)
        skip = any(m(r, p) for r, i, p in fl if not i)
        pos = [(r, p) for r, i, p in fl if i]
        exp = (not skip) and (not pos or any(m(r, p) for r, p in pos))
        checked += 1
        if got != str(int(exp)):
            out.violation("C13:filter_set_rule", "path %r with filters %s: is_match = %s, the rule gives %d" % (path, [("regex" if r else "exact", "include" if i else "skip", p) for r, i, p in fl], got, exp),
                          {"engine": "release", "bin": "puredrv", "query": q})
    out.evaluations += checked
    out.extra["filter_pure_level"] = {"pairs": checked}
    mq = qs[:6]
    purecheck.miri_pure("C13", mq, out)
