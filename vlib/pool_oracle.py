"""Offline oracle over thread-pool histories: C06 (exactly once, return-after-all, reuse, results) and
C07 (bounded progress: every broadcast returns, every worker exits) + interleaving signatures."""
from collections import defaultdict

from . import evlog as E
from .loop_oracle import V


def parse_extra(run):
    info = {"online": 0, "workers": None, "exited": None, "caller": None, "tc": [], "pe": {}}
    for ln in run.extra:
        p = ln.split()
        if p[0] == "ONLINE":
            info["online"] = int(p[1])
        elif p[0] == "WORKERS":
            info["workers"], info["exited"], info["caller"] = int(p[1]), int(p[3]), int(p[5])
        elif p[0] == "TC":
            info["tc"] = [int(x) for x in p[1].split(",")] if len(p) > 1 else []
        elif p[0] == "PE":
            info["pe"][int(p[1])] = p[2].split(",") if len(p) > 2 else []
    return info


def check_history(run):
    """Returns (violations, stats, signatures)."""
    out = []
    cfg = run.cfg
    hist = [int(x) for x in cfg.get("hist", "").split(",") if x != ""]
    rep = int(cfg.get("rep", 1))
    if rep > 1 and hist:
        hist = [hist[0]] * rep + hist[1:]      # `rep=k`: the first width is broadcast k times in a row (pooldrv expands it the same way)
    panics = set()
    for t in cfg.get("panics", "").split(","):
        if t:
            a, b = t.split(":")
            panics.add((int(a), int(b)))
    info = parse_extra(run)
    evs = [e for e in run.events if e.kind != 0]
    unpublished = len(run.events) - len(evs)
    concurrent = cfg.get("cmode", "0") != "0" and cfg.get("callers", "1") != "1"
    calls = {}
    rets = {}
    begins = defaultdict(list)
    ends = defaultdict(list)
    points = defaultdict(list)   # bcast -> list of point events (assigned by position between call/return of the caller)
    exits = set()
    cur_b = None
    for e in evs:
        if e.kind == E.BCAST_CALL:
            calls[e.a] = e
            cur_b = e.a
        elif e.kind == E.BCAST_RETURN:
            rets[e.a] = e
        elif e.kind == E.TASK_BEGIN:
            begins[(e.a, e.b)].append(e)
        elif e.kind == E.TASK_END:
            ends[(e.a, e.b)].append(e)
        elif e.kind == E.THREAD_EXIT:
            exits.add(e.tid)
        elif e.kind == E.POINT and cur_b is not None:
            points[cur_b].append(e)
        elif e.kind == E.ONLINE_VIOLATION:
            out.append(V("C06" if e.a not in (6,) else "C07", "online_%d" % e.a, "online monitor code %d (a=%d b=%d)" % (e.a, e.b, e.c), [e]))
    index_thread = {}
    workers_seen = set()
    max_n = 0
    stats_spawn_failures = []
    sigs = []
    for b, n in enumerate(hist):
        if b not in calls:
            out.append(V("C07", "broadcast_not_started", "broadcast %d never started" % b))
            break
        if b not in rets:
            out.append(V("C07", "broadcast_never_returned", "broadcast %d (n=%d) did not return" % (b, n), [calls[b]]))
            break
        c, r = calls[b], rets[b]
        caller = c.tid          # the thread that issued this broadcast
        if str(b) == cfg.get("spawnfail") and r.c == 1:
            # thread creation failed while this broadcast grew the pool and it left by a panic: the driver's online monitor has
            # checked that no call of it was running or started afterwards; it did not take place as far as the pool's size goes
            stats_spawn_failures.append(b)
            continue
        for idx in range(n + 1):
            bl, el = begins.get((b, idx), []), ends.get((b, idx), [])
            if len(bl) != 1 or len(el) != 1:
                out.append(V("C06", "not_exactly_once", "broadcast %d index %d: %d begins, %d ends" % (b, idx, len(bl), len(el)), bl + el))
                continue
            be, en = bl[0], el[0]
            if not (c.seq < be.seq):
                out.append(V("C06", "task_before_call", "broadcast %d index %d began before the broadcast was issued" % (b, idx), [c, be]))
            if not (en.seq < r.seq):
                out.append(V("C06", "return_before_all_done", "broadcast %d returned before the call for index %d finished" % (b, idx), [en, r]))
                # C07's wake-up clause read from the other side: the caller resumes after the LAST worker has finished, not before
                out.append(V("C07", "resumed_before_last_worker", "broadcast %d: the caller resumed while the call for index %d was still running" % (b, idx), [en, r]))
            if be.tid != en.tid:
                out.append(V("C06", "task_migrated", "broadcast %d index %d began and ended on different threads" % (b, idx), [be, en]))
            if idx == 0:
                if be.tid != caller:
                    out.append(V("C06", "index0_off_caller", "broadcast %d: index 0 ran on thread %d, caller is %d" % (b, be.tid, caller), [be]))
            else:
                if be.tid == caller:
                    out.append(V("C06", "aux_index_on_caller", "broadcast %d: index %d ran on the caller" % (b, idx), [be]))
                prev = index_thread.get(idx)
                if prev is not None and prev != be.tid:
                    out.append(V("C06", "thread_not_reused", "index %d ran on thread %d, earlier broadcasts used thread %d" % (idx, be.tid, prev), [be]))
                index_thread[idx] = be.tid
                workers_seen.add(be.tid)
        tids = [begins[(b, i)][0].tid for i in range(n + 1) if len(begins.get((b, i), [])) == 1]
        if len(set(tids)) != len(tids):
            out.append(V("C06", "threads_not_distinct", "broadcast %d: two indices ran on one thread: %s" % (b, tids)))
        extra = [k for k in begins if k[0] == b and k[1] > n]
        if extra:
            out.append(V("C06", "index_out_of_range", "broadcast %d (n=%d) ran indices %s" % (b, n, sorted(extra))))
        max_n = max(max_n, n)
        if not concurrent and len(workers_seen) != max_n:
            out.append(V("C06", "worker_creation", "after broadcast %d: %d distinct workers seen, largest request so far %d" % (b, len(workers_seen), max_n)))
        if not concurrent and b < len(info["tc"]) and info["tc"][b] != max_n:
            out.append(V("C06", "pool_size", "after broadcast %d the pool holds %d threads, largest request so far %d" % (b, info["tc"][b], max_n)))
            if info["tc"][b] > max_n:
                # workers beyond the largest request can never be handed a task: they are leaked for the life of the pool
                out.append(V("C07", "surplus_workers", "after broadcast %d the pool holds %d threads although no broadcast ever asked for more than %d: the surplus workers can never receive a task" % (b, info["tc"][b], max_n)))
        if b in info["pe"]:
            exp = ["-" if (b, i) in panics else str(i) for i in range(n + 1)]
            if info["pe"][b] != exp:
                out.append(V("C06", "results_order", "broadcast %d results %s, expected %s" % (b, info["pe"][b], exp)))
        # interleaving signature of this broadcast from the failpoint events
        pts = [p for p in points.get(b, []) if p.seq < r.seq] if not concurrent else []
        parks = sum(1 for p in pts if p.tid == caller and p.a == 3 and p.b == 0)
        p2 = next((p for p in pts if p.tid == caller and p.a == 2 and p.b == 0), None)
        p13 = next((p for p in pts if p.a == 13 and p.b == 0), None)
        # the last event the caller logged before it actually called park for the first time
        park_call = None
        for p in pts:
            if p.tid == caller and p.a == 3:
                park_call = p
            elif p.tid == caller and p.a == 4:
                break
        last_dec_early = bool(p13 and p2 and p13.seq < p2.seq)
        unpark_before_park = bool(p13 and park_call and p13.seq < park_call.seq)
        if n > 0 and pts:
            sigs.append((min(parks, 3), last_dec_early, unpark_before_park))
    if info["workers"] is not None:
        if info["exited"] < info["workers"]:
            out.append(V("C07", "worker_leak", "%d of %d worker threads still alive after the pool was dropped (bounded wait)" % (info["workers"] - info["exited"], info["workers"])))
        if concurrent and info["tc"] and max(info["tc"]) > max(hist or [0]):
            # several callers at once: whatever the interleaving, the pool never needs more workers than the widest request
            out.append(V("C06", "pool_size", "the pool grew to %d threads, the largest request of the whole history is %d" % (max(info["tc"]), max(hist or [0]))))
            out.append(V("C07", "surplus_workers", "the pool grew to %d threads although no broadcast asked for more than %d" % (max(info["tc"]), max(hist or [0]))))
        if concurrent and len(workers_seen) != max(hist or [0]):
            out.append(V("C06", "worker_creation", "%d distinct workers ran tasks, the largest request was %d" % (len(workers_seen), max(hist or [0]))))
        if info["workers"] != len(workers_seen):
            out.append(V("C06", "worker_creation", "%d worker threads ran tasks, %d distinct ones in the log" % (info["workers"], len(workers_seen))))
    stats = {"spawn_failures_injected": len(stats_spawn_failures), "broadcasts": len(rets), "task_calls": sum(len(v) for v in begins.values()), "workers": len(workers_seen),
             "panicking_calls": sum(1 for v in ends.values() for e in v if e.c == 1), "unpublished_slots": unpublished}
    return out, stats, sigs
