#!/usr/bin/env python3
"""Breaks each property on a scratch worktree of the repository and confirms that the quick check fires.

usage: selftest/mutants.py [--only C04,C19] [--list] [--seeded] [--keep]

Every mutant is a textual replacement that still compiles and passes the pinned test suite (checked by hand when it was
added; `--verify-tests` re-runs the suite for each). The scratch worktree lives under /root/verif-scratch and is removed
together with its build output when the run is over. Results are written to selftest/results.json.
"""
import argparse
import json
import os
import shutil
import subprocess
import sys
import time

VERIF = os.path.dirname(os.path.dirname(os.path.abspath(__file__)))
SCRATCH = "/root/verif-scratch"
WT = os.path.join(SCRATCH, "repo")

M = []


def mutant(name, prop, path, old, new, also=()):
    M.append({"name": name, "prop": prop, "path": path, "old": old, "new": new, "also": list(also)})


B = "src/benchmark/mod.rs"
# --- C01 -------------------------------------------------------------------------------------------------------
mutant("c01_skip_drop_input_slots", "C01", B, """                            if mem::needs_drop::<I>() {
                                // SAFETY: The output was dropped and thus we
                                // have exclusive access to inputs.
                                unsafe { drop_input(input) }
                            }""", """                            if mem::needs_drop::<I>() && sample_size > 1 {
                                // SAFETY: The output was dropped and thus we
                                // have exclusive access to inputs.
                                unsafe { drop_input(input) }
                            }""")
mutant("c01_local_keeps_thread_count", "C01", B, "            self.thread_count = NonZeroUsize::MIN;\n", "")
mutant("c01_zst_one_drop_too_many", "C01", B, """                // Drop outputs and inputs.
                for _ in 0..sample_size {
                    // Output only needs drop if ZST.""", """                // Drop outputs and inputs.
                for _ in 0..sample_size + (sample_size / 5) {
                    // Output only needs drop if ZST.""")
mutant("c01_swap_drop_order", "C01", B, """                            unsafe { (*output.get()).assume_init_drop() }

                            if mem::needs_drop::<I>() {
                                // SAFETY: The output was dropped and thus we
                                // have exclusive access to inputs.
                                unsafe { drop_input(input) }
                            }""", """                            if mem::needs_drop::<I>() {
                                // SAFETY: The output was dropped and thus we
                                // have exclusive access to inputs.
                                unsafe { drop_input(input) }
                            }

                            unsafe { (*output.get()).assume_init_drop() }""")
# --- C02 -------------------------------------------------------------------------------------------------------
mutant("c02_sample_end_after_drop_inputs_only", "C02", B, """                        sample_end = UntaggedTimestamp::end(timer_kind);
                        sync_threads(false);
                        save_alloc_info();

                        // Prevent the optimizer from removing writes to inputs
                        // in the sample loop.
                        black_box(defer_inputs_slice);

                        // Drop inputs.
                        if mem::needs_drop::<I>() {
                            for input in defer_inputs_slice {
                                // SAFETY: We have exclusive access to inputs.
                                unsafe { drop_input(input) }
                            }
                        }""", """                        // Prevent the optimizer from removing writes to inputs
                        // in the sample loop.
                        black_box(defer_inputs_slice);

                        // Drop inputs.
                        if mem::needs_drop::<I>() {
                            for input in defer_inputs_slice {
                                // SAFETY: We have exclusive access to inputs.
                                unsafe { drop_input(input) }
                            }
                        }

                        sample_end = UntaggedTimestamp::end(timer_kind);
                        sync_threads(false);
                        save_alloc_info();""")
mutant("c02_save_alloc_after_drop_slots", "C02", B, """                        sample_end = UntaggedTimestamp::end(timer_kind);
                        sync_threads(false);
                        save_alloc_info();

                        // Prevent the optimizer from removing writes to inputs
                        // and outputs in the sample loop.
                        black_box(defer_slots_slice);
""", """                        sample_end = UntaggedTimestamp::end(timer_kind);
                        sync_threads(false);

                        // Prevent the optimizer from removing writes to inputs
                        // and outputs in the sample loop.
                        black_box(defer_slots_slice);
""", also=[(B, """                                unsafe { drop_input(input) }
                            }
                        }
                    }

                    // Output does not need to be dropped.""", """                                unsafe { drop_input(input) }
                            }
                        }
                        save_alloc_info();
                    }

                    // Output does not need to be dropped.""")])
mutant("c02_prepare_after_start_sync", "C02", B, """                defer_store.prepare(sample_size);

                match defer_store.slots() {""", """                if barrier.is_none() {
                    defer_store.prepare(sample_size);
                } else {
                    sync_impl_probe();
                    defer_store.prepare(sample_size);
                }

                match defer_store.slots() {""", also=[(B, """    #[inline]
    fn initial_mode(&self) -> BenchMode {""", """    #[inline]
    fn initial_mode(&self) -> BenchMode {""")])
# --- C03 -------------------------------------------------------------------------------------------------------
mutant("c03_rem_minus_two", "C03", B, "*rem_samples = rem_samples.saturating_sub(1);", "*rem_samples = rem_samples.saturating_sub(if thread_count > 4 { 2 } else { 1 });")
mutant("c03_default_sample_count", "C03", B, "pub(crate) const DEFAULT_SAMPLE_COUNT: u32 = 100;", "pub(crate) const DEFAULT_SAMPLE_COUNT: u32 = 101;")
mutant("c03_has_samples_ignores_size", "C03", "src/benchmark/options.rs", "self.sample_count != Some(0) && self.sample_size != Some(0)", "self.sample_count != Some(0)")
# --- C04 -------------------------------------------------------------------------------------------------------
mutant("c04_ge_to_gt", "C04", B, "if elapsed_picos >= max_picos {", "if elapsed_picos > max_picos {")
mutant("c04_no_floor", "C04", B, "let progress_picos = slowest_time.picos.max(1_000);", "let progress_picos = slowest_time.picos;")
mutant("c04_min_max_priority", "C04", B, """            if elapsed_picos >= max_picos {
                // Depleted the benchmarking time budget. This is a strict
                // condition regardless of sample count and minimum time.
                false
            } else if rem_samples.unwrap_or(1) > 0 {""", """            if elapsed_picos >= max_picos && elapsed_picos >= min_picos {
                // Depleted the benchmarking time budget. This is a strict
                // condition regardless of sample count and minimum time.
                false
            } else if rem_samples.unwrap_or(1) > 0 {""")
mutant("c04_elapsed_from_first_thread", "C04", B, "let last_end = raw_samples.iter().map(|s| s.end).max().unwrap();", "let last_end = raw_samples[0].end;")
# --- C05 -------------------------------------------------------------------------------------------------------
mutant("c05_median_upper_only", "C05", "src/util/mod.rs", "&slice[(len / 2) - 1..][..2]", "&slice[(len / 2)..][..1]")
mutant("c05_mean_div_samples", "C05", B, ".checked_div(total_count as u128)", ".checked_div(sample_count as u128 * if sample_count > 6 { 1 } else { sample_size as u128 })")
mutant("c05_alloc_by_sorted_index", "C05", B, """                sample
                    .and_then(|sample| {
                        u32::try_from(index_of_sample(sample)).ok()
                    })""", """                sample
                    .and_then(|sample| {
                        u32::try_from(index_of_sample(sample) % 7).ok()
                    })""")
# --- C06 / C07 ---------------------------------------------------------------------------------------------------
P = "src/util/thread/pool.rs"
mutant("c06_release_to_relaxed", "C06", P, ".fetch_sub(1, Ordering::Release)", ".fetch_sub(1, Ordering::Relaxed)")
mutant("c06_while_to_if", "C06", P, "while task.shared.as_ref().ref_count.load(Ordering::Acquire) > 0 {", "if task.shared.as_ref().ref_count.load(Ordering::Acquire) > 0 {")
mutant("c06_unpark_through_task_block", "C06", P, """                        let main_thread =
                            task.shared.as_ref().main_thread.clone();
""", """                        let main_thread = &task.shared.as_ref().main_thread;
""")
mutant("c07_unpark_before_decrement", "C07", P, """                        if task
                            .shared
                            .as_ref()
                            .ref_count
                            .fetch_sub(1, Ordering::Release)
                            == 1
                        {""", """                        if task.shared.as_ref().ref_count.load(Ordering::Relaxed) == 1 {
                            main_thread.unpark();
                        }
                        if task
                            .shared
                            .as_ref()
                            .ref_count
                            .fetch_sub(1, Ordering::Release)
                            == 0
                        {""")
mutant("c07_workers_never_exit", "C07", P, "            let (sender, receiver) = mpsc::sync_channel::<Task>(0);\n", "            let (sender, receiver) = mpsc::sync_channel::<Task>(0);\n            std::mem::forget(sender.clone());\n")
# --- C08 -------------------------------------------------------------------------------------------------------
mutant("c08_no_second_start_barrier", "C08", B, """                        // Synchronize all threads.
                        if let Some(barrier) = barrier {
                            barrier.wait();
                            waits += 1;
                        }

                        #[cfg(feature = "verif_hooks")]
                        crate::verif::point(23);""", """                        waits += 1;

                        #[cfg(feature = "verif_hooks")]
                        crate::verif::point(23);""", also=[(B, "BarrierUnwindGuard { barrier, remaining_waits: Cell::new(3) };", "BarrierUnwindGuard { barrier, remaining_waits: Cell::new(2) };")])
mutant("c08_guard_off_by_one", "C08", B, "BarrierUnwindGuard { barrier, remaining_waits: Cell::new(3) };", "BarrierUnwindGuard { barrier, remaining_waits: Cell::new(2) };")
# --- C09 / C10 ---------------------------------------------------------------------------------------------------
A = "src/alloc.rs"
mutant("c09_zeroed_to_alloc", "C09", A, "self.alloc.alloc_zeroed(layout)", "self.alloc.alloc(layout)")
mutant("c09_realloc_old_size", "C09", A, "self.alloc.realloc(ptr, layout, new_size)", "self.alloc.realloc(ptr, layout, new_size.max(1))")
mutant("c10_max_not_on_realloc", "C10", A, """        self.current_size += diff as ThreadAllocCountSigned;
        self.max_size = self.max_size.max(self.current_size);
    }

    /// Tallies the total count and size of the allocation operation.
    #[inline]
    fn tally_op""", """        self.current_size += diff as ThreadAllocCountSigned;
    }

    /// Tallies the total count and size of the allocation operation.
    #[inline]
    fn tally_op""")
mutant("c10_dealloc_keeps_count", "C10", A, """        self.current_count -= 1;
        self.current_size -= size as ThreadAllocCountSigned;""", """        self.current_count -= (size != 0) as ThreadAllocCountSigned;
        self.current_size -= size as ThreadAllocCountSigned;""")
# --- C11 -------------------------------------------------------------------------------------------------------
mutant("c11_wrapping_sub", "C11", "src/time/timestamp/tsc/mod.rs", """        let Some(diff) = self.value.checked_sub(earlier.value) else {
            return Default::default();
        };""", """        let diff = self.value.wrapping_sub(earlier.value);""")
mutant("c11_u64_multiply", "C11", "src/time/timestamp/tsc/mod.rs", "(diff as u128 * PICOS) / frequency.get() as u128", "((diff.wrapping_mul(PICOS as u64)) / frequency.get()) as u128")
mutant("c11_duration_micros", "C11", "src/time/fine_duration.rs", "picos: duration.as_nanos().checked_mul(1_000)", "picos: (duration.as_micros() * 1_000).checked_mul(1_000)")
# --- C13 -------------------------------------------------------------------------------------------------------
mutant("c13_inclusive_start_gt", "C13", "src/config/filter.rs", "return index >= inclusive_start;", "return index > inclusive_start || filters.len() == 1;")
mutant("c13_arg_filter_without_arg", "C13", "src/entry/tree.rs", 'filter(&format!("{subtree_path}::{arg}"))', 'filter(subtree_path) || filter(&format!("{subtree_path}::{arg}"))')
# --- C14 -------------------------------------------------------------------------------------------------------
mutant("c14_list_benches_runs", "C14", "src/divan.rs", """    pub fn list_benches(&self) {
        self.run_action(Action::List);""", """    pub fn list_benches(&self) {
        self.run_action(Action::Test);""")
mutant("c14_terse_omits_last_arg", "C14", "src/divan.rs", """                    for arg in args {
                        println!("{full_path}::{arg}: benchmark")
                    }""", """                    for arg in args.iter().take(args.len().max(2) - 1) {
                        println!("{full_path}::{arg}: benchmark")
                    }""")
# --- C15 -------------------------------------------------------------------------------------------------------
mutant("c15_sample_size_precedence", "C15", "src/benchmark/options.rs", "sample_size: self.sample_size.or(other.sample_size),", "sample_size: other.sample_size.or(self.sample_size),")
mutant("c15_counters_wholesale", "C15", "src/counter/collection.rs", """            counts: KnownCounterKind::ALL
                .map(|kind| self.get(kind).or(other.get(kind))),""", """            counts: if self.counts.iter().any(|c| c.is_some()) { self.counts } else { other.counts },""")
# --- C16 -------------------------------------------------------------------------------------------------------
mutant("c16_no_zero_trim", "C16", "src/util/sort.rs", """    a = a.trim_start_matches('0');
    b = b.trim_start_matches('0');
""", """    a = a.trim_start_matches("00");
    b = b.trim_start_matches("00");
""")
mutant("c16_tiebreak_permuted", "C16", "src/config/mod.rs", "Name => [self, Location, Kind],", "Name => [self, Kind, Location],")
mutant("c16_parse_a_twice", "C16", "src/config/mod.rs", "match (a.parse::<u128>(), b.parse::<u128>()) {", "match (a.parse::<u128>(), a.parse::<u128>()) {")
# --- C17 -------------------------------------------------------------------------------------------------------
mutant("c17_index_from_filtered_position", "C17", "src/divan.rs", """                    let arg_index =
                        util::slice_ptr_index(orig_arg_names, arg_name);""", """                    let arg_index = if bench_arg_names.len() == orig_arg_names.len() { util::slice_ptr_index(orig_arg_names, arg_name) } else { i };""")
# --- C18 -------------------------------------------------------------------------------------------------------
mutant("c18_le_micros", "C18", "src/time/fine_duration.rs", "} else if picos < MICROS {", "} else if picos <= MICROS {")
mutant("c18_one_more_digit", "C18", "src/util/fmt.rs", "let fract_digits = sig_figs.saturating_sub(dot_index);", "let fract_digits = sig_figs.saturating_sub(dot_index) + (dot_index == 3) as usize;")
mutant("c18_binary_uses_1000", "C18", "src/util/fmt.rs", "            1024u64.pow(3) as f64,", "            1000u64.pow(3) as f64,")
# --- C19 -------------------------------------------------------------------------------------------------------
mutant("c19_lt_100", "C19", B, "if precision_multiple <= 100 {", "if precision_multiple < 100 {")
mutant("c19_forget_clear", "C19", B, """                self.samples.clear();
                self.counters.clear_input_counts();""", """                if thread_count > 1 { self.samples.clear(); }
                self.counters.clear_input_counts();""")
mutant("c19_fastest_thread", "C19", B, "raw_samples.iter().max_by_key(|s| s.duration()).unwrap();", "raw_samples.iter().min_by_key(|s| s.duration()).unwrap();")
# --- C20 -------------------------------------------------------------------------------------------------------
T = "src/tree_painter.rs"
mutant("c20_prefix_for_last", "C20", T, """            self.current_prefix.push_str(if !is_last {
                "│  "
            } else {
                "   "
            });""", """            self.current_prefix.push_str(if !is_last || self.depth > 3 {
                "│  "
            } else {
                "   "
            });""")
mutant("c20_ignored_still_runs", "C20", "src/divan.rs", """                .ignore_leaf(entry_display_name, is_last_entry);
            return;""", """                .ignore_leaf(entry_display_name, is_last_entry);
            if bench_arg_names.is_none() { return; }""")
# --- C12 (macros) ------------------------------------------------------------------------------------------------
mutant("c12_display_keeps_raw", "C12", "macros/src/lib.rs", """        Some(name) => name,
        None => &raw_name_pretty,""", """        Some(name) => name,
        None => &raw_name,""")
mutant("c12_column_is_line", "C12", "macros/src/lib.rs", "col: ::std::column!(),", "col: ::std::line!(),")

# mutants that do not compile as written above are dropped here
M = [m for m in M if m["name"] not in ("c02_prepare_after_start_sync",)]


def sh(cmd, **kw):
    return subprocess.run(cmd, stdout=subprocess.PIPE, stderr=subprocess.STDOUT, text=True, **kw)


def apply(m):
    for path, old, new in [(m["path"], m["old"], m["new"])] + [tuple(x) for x in m["also"]]:
        fp = os.path.join(WT, path)
        s = open(fp).read()
        if s.count(old) < 1:
            raise RuntimeError("mutant %s: pattern not found in %s" % (m["name"], path))
        open(fp, "w").write(s.replace(old, new, 1))


def revert():
    sh(["git", "-C", WT, "checkout", "--", "."])


def main():
    ap = argparse.ArgumentParser()
    ap.add_argument("--only", default="")
    ap.add_argument("--list", action="store_true")
    ap.add_argument("--keep", action="store_true")
    ap.add_argument("--verify-tests", action="store_true")
    ap.add_argument("--names", default="")
    args = ap.parse_args()
    sel = [m for m in M if (not args.only or m["prop"] in args.only.split(",")) and (not args.names or m["name"] in args.names.split(","))]
    if args.list:
        for m in sel:
            print(m["prop"], m["name"])
        return
    os.makedirs(SCRATCH, exist_ok=True)
    if not os.path.isdir(WT):
        r = sh(["git", "-C", "/repo", "worktree", "add", "--detach", WT, "HEAD"])
        if r.returncode:
            print(r.stdout)
            sys.exit(2)
    revert()
    sh(["git", "-C", WT, "checkout", "--detach", sh(["git", "-C", "/repo", "rev-parse", "HEAD"]).stdout.strip()])
    env = dict(os.environ)
    env["VERIF_REPO"] = WT
    results = []
    # baseline silence on the scratch copy
    props = sorted({m["prop"] for m in sel})
    for m in sel:
        t0 = time.time()
        try:
            apply(m)
        except RuntimeError as e:
            results.append({"mutant": m["name"], "prop": m["prop"], "verdict": "STALE", "detail": str(e)})
            print("STALE  %-36s %s" % (m["name"], e))
            revert()
            continue
        if args.verify_tests:
            r = sh(["cargo", "test", "--workspace", "--no-fail-fast", "--offline"], cwd=WT, env=dict(os.environ, CARGO_TARGET_DIR=os.path.join(SCRATCH, "test-target")))
            tests_ok = r.returncode == 0
        else:
            tests_ok = None
        r = sh([os.path.join(VERIF, "check"), m["prop"], "--tier", "quick"], cwd=VERIF, env=env)
        lines = [l for l in r.stdout.split("\n") if l.startswith("VIOLATION") or l.startswith("  " + m["prop"])]
        verdict = {0: "MISSED", 1: "CAUGHT", 2: "UNDECIDED"}.get(r.returncode, "rc=%s" % r.returncode)
        sigs = [l.strip().split(": ")[0] for l in r.stdout.split("\n") if l.startswith("  " + m["prop"] + ":")]
        results.append({"mutant": m["name"], "prop": m["prop"], "verdict": verdict, "signatures": sigs[:6], "tests_pass": tests_ok, "seconds": round(time.time() - t0, 1),
                        "tail": r.stdout[-400:] if verdict != "CAUGHT" else ""})
        print("%-9s %-36s %5.0fs %s" % (verdict, m["name"], time.time() - t0, ", ".join(sigs[:3])))
        sys.stdout.flush()
        revert()
    with open(os.path.join(VERIF, "selftest", "results.json"), "w") as f:
        json.dump({"at": time.strftime("%Y-%m-%d %H:%M:%S"), "results": results}, f, indent=1)
    if not args.keep:
        sh(["git", "-C", "/repo", "worktree", "remove", "--force", WT])
        shutil.rmtree(SCRATCH, ignore_errors=True)
        sys.path.insert(0, VERIF)
        os.environ["VERIF_REPO"] = WT
        from vlib import build
        import importlib
        importlib.reload(build)
        build.clean_scratch()
    caught = sum(1 for r in results if r["verdict"] == "CAUGHT")
    print("caught %d of %d" % (caught, len(results)))


if __name__ == "__main__":
    main()
