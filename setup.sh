#!/bin/sh
# Builds every flavour of the harness once, offline, from files on disk only, so that the
# checks only pay for incremental rebuilds. Safe to re-run.
set -e
cd "$(dirname "$0")"
export CARGO_NET_OFFLINE=true
python3 - <<'PY'
import sys, os
sys.path.insert(0, os.getcwd())
from vlib import build
ALL = [b[:-3] for b in sorted(os.listdir(os.path.join(build.VERIF, "harness", "src", "bin"))) if b.endswith(".rs")]
for flavour in ("native", "release", "asan", "tsan"):
    build.build(flavour, ALL, quiet=False)
for b in ALL:
    try:
        build.miri_prebuild(b)
    except Exception as e:
        print("miri prebuild of %s: %s" % (b, e))
PY
echo "setup done"
