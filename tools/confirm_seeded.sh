#!/bin/sh
# usage: confirm_seeded.sh <property id> <worktree with the change applied and verif_demo/> [<tag>]
# Confirms a sub-agent's breaking change independently in a fresh scratch worktree:
#   patch applies to /repo HEAD, crate compiles, the pinned suite passes with it, the demo fails with it and passes without it.
# Then copies patch.diff, the demo and a meta.json skeleton to /verif/seeded/<tag>/.
set -u
ID=$1; SRC=$2; TAG=${3:-$ID}
SCR=/root/verif-scratch/confirm-$TAG
OUT=/verif/seeded/$TAG
mkdir -p /root/verif-scratch "$OUT"
git -C /repo worktree remove --force "$SCR" 2>/dev/null
git -C /repo worktree add -q --detach "$SCR" HEAD || exit 2
export CARGO_TARGET_DIR=$SCR/target CARGO_NET_OFFLINE=true
cd "$SCR"
cp "$SRC/verif_demo/patch.diff" "$OUT/patch.diff"
for f in "$SRC"/verif_demo/*; do case "$f" in *.log|*log_*|*.txt) ;; *) cp -r "$f" "$OUT/" ;; esac; done
DEMO=$(ls "$SRC"/verif_demo/*.rs 2>/dev/null | head -1)
NAME=$(basename "$DEMO" .rs)
if [ -f "$SRC/verif_demo/Cargo.toml" ]; then
  # the demo is a stand-alone cargo project with a path dependency on `..`
  if [ -f "$SRC/verif_demo/src/main.rs" ]; then SUB=run; else SUB=test; fi
  run_demo() { rm -rf verif_demo; cp -r "$SRC/verif_demo" verif_demo; rm -rf verif_demo/target; cargo $SUB --offline --manifest-path verif_demo/Cargo.toml > "$1" 2>&1; rc=$?; rm -rf verif_demo; return $rc; }
elif [ -x "$SRC/verif_demo/run_demo.sh" ]; then
  run_demo() { rm -rf verif_demo; cp -r "$SRC/verif_demo" verif_demo; sh verif_demo/run_demo.sh > "$1" 2>&1; rc=$?; rm -rf verif_demo; return $rc; }
else
  run_demo() { cp "$DEMO" tests/ && cargo test --offline --features verif_hooks --test "$NAME" > "$1" 2>&1; rc=$?; rm -f "tests/$NAME.rs"; return $rc; }
fi
echo "== demo on the original code"; run_demo "$OUT/demo_original.log"; RC_ORIG=$?
git apply "$OUT/patch.diff" || { echo "PATCH DOES NOT APPLY"; exit 3; }
echo "== suite with the change"; cargo test --workspace --no-fail-fast --offline > "$OUT/suite_with_change.log" 2>&1; RC_SUITE=$?
echo "== demo with the change"; run_demo "$OUT/demo_with_change.log"; RC_MUT=$?
echo "suite_rc=$RC_SUITE demo_original_rc=$RC_ORIG demo_with_change_rc=$RC_MUT" | tee "$OUT/confirm.txt"
grep -E "^test result" "$OUT/suite_with_change.log" | tr '\n' ' ' >> "$OUT/confirm.txt"
cd /; git -C /repo worktree remove --force "$SCR"
[ $RC_SUITE -eq 0 ] && [ $RC_ORIG -eq 0 ] && [ $RC_MUT -ne 0 ] && echo CONFIRMED || echo NOT-CONFIRMED
