#!/usr/bin/env python3
"""Regenerates the seeded-mutant table in DESIGN.md (between the SEEDED-TABLE markers) from seeded/*/meta.json."""
import json, os, glob, re
V = os.path.dirname(os.path.dirname(os.path.abspath(__file__)))
rows = []
for d in sorted(glob.glob(os.path.join(V, "seeded", "*"))):
    mp = os.path.join(d, "meta.json")
    if not os.path.exists(mp):
        continue
    m = json.load(open(mp))
    tag = os.path.basename(d)
    needs = m["needs_to_manifest"].replace("|", "/").replace("\n", " ")
    run = m["checks_run"].replace("|", "/").replace("\n", " ")
    rows.append("| `seeded/%s` | %s | %s | %s |" % (tag, m["property"], needs, run))
table = "\n".join(["| change | property | what it needs to manifest | what the checks did |", "|---|---|---|---|"] + rows)
p = os.path.join(V, "DESIGN.md")
s = open(p).read()
block = "<!-- SEEDED-TABLE-BEGIN -->\n" + table + "\n<!-- SEEDED-TABLE-END -->"
if "<!-- SEEDED-TABLE-BEGIN -->" in s:
    s = re.sub(r"<!-- SEEDED-TABLE-BEGIN -->.*?<!-- SEEDED-TABLE-END -->", lambda _: block, s, flags=re.S)
else:
    s = s.rstrip("\n") + "\n\n" + block + "\n"
open(p, "w").write(s)
print("rows:", len(rows))
