#!/usr/bin/env python3
"""Writes /verif/seeded/<tag>/meta.json. usage: seeded_meta.py <tag> <property> <needs> <caught_by> [<origin>]"""
import json, os, sys
tag, prop, needs, caught = sys.argv[1:5]
origin = sys.argv[5] if len(sys.argv) > 5 else "independent sub-agent (saw only the property text and a scratch worktree)"
d = os.path.join(os.path.dirname(os.path.dirname(os.path.abspath(__file__))), "seeded", tag)
os.makedirs(d, exist_ok=True)
conf = open(os.path.join(d, "confirm.txt")).read() if os.path.exists(os.path.join(d, "confirm.txt")) else ""
meta = {"property": prop, "origin": origin, "needs_to_manifest": needs,
        "confirmed": {"how": "tools/confirm_seeded.sh in a fresh scratch worktree of /repo HEAD: patch applies, `cargo test --workspace --no-fail-fast --offline` passes with it, the demo passes on the original code and fails with the change", "result": conf.split("\n")[0]},
        "checks_run": caught}
json.dump(meta, open(os.path.join(d, "meta.json"), "w"), indent=1)
print("wrote", os.path.join(d, "meta.json"))
