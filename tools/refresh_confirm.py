#!/usr/bin/env python3
"""Copies the first line of seeded/*/confirm.txt into meta.json (confirmed.result)."""
import glob, json, os
V = os.path.dirname(os.path.dirname(os.path.abspath(__file__)))
for d in sorted(glob.glob(os.path.join(V, "seeded", "*"))):
    mp, cp = os.path.join(d, "meta.json"), os.path.join(d, "confirm.txt")
    if os.path.exists(mp) and os.path.exists(cp):
        m = json.load(open(mp))
        m["confirmed"]["result"] = open(cp).read().split("\n")[0]
        json.dump(m, open(mp, "w"), indent=1)
        print(os.path.basename(d), m["confirmed"]["result"])
    else:
        print(os.path.basename(d), "MISSING", os.path.exists(mp), os.path.exists(cp))
