#!/usr/bin/env python3
"""Regenerates /verif/MANIFEST.json from the table below (keeps it valid at all times)."""
import json
import os
import subprocess

VERIF = os.path.dirname(os.path.dirname(os.path.abspath(__file__)))

CLAIMED = {
    "C01": dict(
        technique="runtime monitoring: offline per-value lifecycle/thread-affinity oracle over boundary event logs + Miri + ASan/LSan (+ valgrind in thorough)",
        text="Held on every explored execution of the real sample loop: hundreds (quick) to tens of thousands (thorough) of seeded configurations over all six "
             "Bencher entry points x input/output shapes x s x n x T x bench/test x explicit/tuned x panic plans, each judged by a per-id state machine "
             "(gen<count<call, exactly-once drops, drop after the sample's end timestamp, output before input, one thread per value, _local on the caller); "
             "the same workloads run under Miri (UB, aliasing, leaks) and ASan+LSan. Exploration, not proof: schedules and configurations are sampled.",
        note="Trusts: the event log taken at user closures / Drop impls (relaxed global sequence counter), the virtual TSC hook, rustc/Miri/ASan themselves.",
        ref="3 (C01)"),
    "C02": dict(
        technique="runtime monitoring: timed-window oracle over clock/allocator/closure event logs; reference tally model vs. reported per-sample figures; Miri",
        text="Every timed window (latest start read before an end read on a thread) of every explored run contains nothing but benchmarked calls and events nested in "
             "them, and the reported per-sample allocation figures equal a reference model of the outer-allocator operations logged inside that window "
             "(multiset match per round for T>1, distinct per-thread scripts). Exploration over seeded alloc/cost scripts.",
        note="Trusts the LogOuter allocator layer as ground truth of a thread's allocator operations and the virtual clock as the only timestamp source (TSC path).",
        ref="3 (C02)"),
    "C03": dict(
        technique="runtime monitoring: call/window counting oracle over event logs on an (n, s, T) boundary grid; report/figures cross-check",
        text="For every explored (n, s, T, entry, mode): exactly T*ceil(n/T) windows of exactly s calls, ceil(n/T) on each of T distinct threads incl. the caller; "
             "test mode one call per thread and nothing stored; n=0/s=0/max_time=0 no call; samples/iters figures = recorded count and count*s.",
        note="Ways of *setting* the options (attribute/group/CLI/env) are covered end-to-end by C15's check; here options are set on BenchOptions directly.",
        ref="3 (C03)"),
    "C04": dict(
        technique="runtime monitoring: replay of the documented stopping rule on the logged clock readings (virtual clock), exact round count comparison",
        text="For every explored history of clock readings the number of rounds executed equals the least r satisfying the documented rule, recomputed "
             "independently from the logged start/end readings (initial start, latest end per round, or sum of slowest windows with a 1 ns floor under skip_ext_time).",
        note="Decided on the TSC code path with the scripted clock; the Instant path shares the loop code but cannot be scripted.",
        ref="3 (C04)"),
    "C05": dict(
        technique="runtime monitoring: exact integer order-statistics model (tie sets) vs. the Stats the loop computed; chain check clock->sample->statistic",
        text="For every explored multiset of recorded samples (ties, 0 ps, > 2^64 ps, empty, n=1, even/odd, T>1) fastest/slowest/median/mean equal the exact integer "
             "order statistics, alloc/counter figures under each belong to a sample that could have supplied that time, means are over all samples, per-input "
             "counters are sum/s, and compute_stats neither panics nor yields NaN. Printing is judged on stdout by C20's check.",
        note="Float figures compared with 1e-9 relative tolerance; recorded samples are cross-checked against the logged clock readings.",
        ref="3 (C05)"),
    "C08": dict(
        technique="runtime monitoring: cross-thread phase-order oracle on global sequence numbers under injected skew; panic matrix under a quiescent-deadlock detector, with a drop-inside-a-peer's-timed-section oracle for rounds that unwind; TSan; Miri",
        text="On every explored multi-thread run no start timestamp precedes another thread's last gen/count/tally-clear and no drop precedes another thread's end "
             "timestamp (one thread delayed >=200us in exactly the exposing phase, or seeded failpoint jitter); per-round multiset match of per-thread alloc figures; "
             "every (thread, phase, round) panic scenario on T in {2,3} ends with a panic on the caller, hangs being decided exactly (all threads in untimed futex waits).",
        note="Interleavings are sampled (skew, jitter, Miri seeds), not enumerated. Deadlock verdict trusts /proc task state + futex timeout argument.",
        ref="3 (C08)"),
    "C19": dict(
        technique="runtime monitoring: replay of the documented doubling/threshold/discard rule on logged round sizes and clock readings; end-to-end slice through the real runner (calls per case and thread count on a scripted clock)",
        text="For every explored tuned run the round sizes are 1,2,4,... while floor(slowest/precision) <= 100, the first round above the threshold is the first recorded "
             "one, the report holds exactly the samples/alloc/counter data of the recorded rounds at the final size, and max_time counts from before tuning.",
        note="Precision is taken as conv(step) of the virtual clock (the regime 1 <= delta <= step that C11's check validates against the real measure_precision).",
        ref="3 (C19)"),
    "C06": dict(
        technique="runtime monitoring: exactly-once / return-after-all / reuse oracle over broadcast event logs; plain-data visibility probe under Miri (many seeds) and TSan; ASan; stack scribbling",
        text="On every explored history (growing/shrinking/zero thread counts, panicking subsets, delays, failpoint jitter) each index 0..=n ran exactly once, index 0 on the "
             "caller, others on distinct reused workers, the return followed every call in the global order, par_extend results were in index order with None exactly "
             "at panicked calls, and worker count = largest request so far. The task writes plain data read by the caller after the return, so a missing "
             "happens-before edge or a touch of the dead task block is a Miri/TSan data race; Miri runs small histories x many seeds x preemption rates.",
        note="Interleavings are sampled (failpoint jitter natively/TSan, Miri seeds), never enumerated; evidence lists distinct interleaving signatures seen.",
        ref="4 (C06)"),
    "C07": dict(
        technique="runtime monitoring: bounded-progress monitor (every broadcast returns, every worker exits) with an exact quiescent-deadlock detector natively and Miri's deadlock detector; TSan",
        text="Every explored history ran to completion and every worker exited after pool drop (thread-exit guards, bounded wait); hangs are decided, not timed out: "
             "natively all threads in untimed futex waits with frozen context-switch counters (gdb stacks as witness), under Miri 'the evaluated program deadlocked' "
             "and 'main thread terminated without waiting'. Histories aim at the lost-wake-up windows (fast workers, sleeps between decrement and unpark, stale tokens).",
        note="Unbounded liveness restated as bounded progress; a livelock without quiescence would only show as an inconclusive watchdog.",
        ref="4 (C07)"),
    "C09": dict(
        technique="runtime monitoring: mock inner allocator call log (direct mode) and two-layer sandwich monitor with per-thread depth counter during thread start-up / TLS destructors (incl. destructors registered before the thread's first request, on std threads and bare pthreads); a crash of either driver is a verdict; Miri",
        text="Every scripted request (all four methods, sizes 0..2^40, alignments 1..4096) reached the wrapped allocator exactly once with identical arguments and its "
             "scripted result (null and sentinels included) came back unchanged; under the global sandwich LogOuter<AllocProfiler<LogInner<System>>> every outer request "
             "saw exactly one matching inner call, depth never exceeded 1, including calls flagged first-on-thread and inside-TLS-destructor.",
        note="Trusts the two logging layers (const-initialised destructor-free thread locals). macOS PThreadKey path unreachable on this Linux box.",
        ref="5 (C09)"),
    "C10": dict(
        technique="runtime monitoring: 15-line reference tally model compared after every scripted operation on 1..8 concurrent threads, plus real allocator traffic vs. model fed by the outer log; TSan; Miri",
        text="After every operation of every explored sequence (lengths 0..5000, sizes 0..2^40, shrink to 0, equal-size realloc, frees beyond the clear, mid-sequence clears) "
             "the thread's tally equals the model: per-op counts and byte sums, signed live count/bytes, true maxima over all prefixes; each thread matches its own model "
             "while others run.",
        note="A failed (null) request counts as an operation; equal-size realloc accepted in either bucket with 0 bytes.",
        ref="5 (C10)"),
    "C11": dict(
        technique="runtime monitoring of the real conversion functions against an exact big-integer reference + metamorphic relations; real measure_precision under stepped (incl. very coarse) virtual clocks; end-to-end slice: recorded samples of real sample loops on virtual counters of many frequencies vs. the logged windows (incl. end readings below start readings) and Duration time limits on f64-hostile values one nanosecond off a round boundary; Miri",
        text="Hundreds of thousands (quick) to tens of millions (thorough) of boundary-dense and random (a, b, f) triples agree with floor((b-a)*10^12/f) (0 for b<a), are "
             "monotone, additive up to 1 ps and translation invariant; Durations up to u64::MAX seconds convert to nanos*1000; the real measure_precision returns the step "
             "of every uniform virtual clock tried; both layers of duration_since (raw counter difference and the tagged Timestamp wrapper) agree; recorded samples of real loops equal floor(ticks*10^12/f) of their logged window for frequencies from 1 Hz to 2^64-1.",
        note="Precision clause in the regime 1 <= read cost <= step; the OS timer cannot be scripted.",
        ref="5 (C11)"),
    "C18": dict(
        technique="runtime monitoring of the real formatters against an exact integer model (durations) and an exact-rational truncation oracle (throughput, bytes, plain numbers); end-to-end slice: byte / throughput cells of real bench runs judged with the byte format configured through CLI, environment or builder; Miri",
        text="Every explored duration string equals the truthful truncation computed in exact integers; every throughput/byte/number string parses back to a value with the right "
             "prefix that is <= the exact rational and less than one unit of the last allowed place below it, without trailing zeros or exponent; 0 and inf cases; no panic.",
        note="Float path compared with 1e-11 relative tolerance; only default (table) formatting is judged.",
        ref="5 (C18)"),
    "C13": dict(
        technique="runtime monitoring: per-case filter reference model vs. executed set (invocation log) and printed leaf set of the real runner on synthetic registries; Miri on the SplitVec/FilterSet probe",
        text="For every explored (registry, filter set) the set of cases that ran and the set of leaves shown equal the cases the reference rule selects per case (no skip match and "
             "no positive filter or some positive match; regex search or whole-string equality), inner nodes appear exactly above selected cases; filters via CLI and builder.",
        note="Regex filters restricted to syntax on which Python re and regex-lite agree; macro-generated paths are covered by the generated-crate check (C12).",
        ref="6 (C13)"),
    "C14": dict(
        technique="runtime monitoring: empty-invocation-log monitor under all list actions; differential comparison of the terse listing with a twin --test run; --exact round trips; macro-path slice on generated crates judged on the (function, type, const, argument) each body reports",
        text="Under --list, terse listing and Divan::list_benches no benchmark body or Bencher closure ran; the terse lines equal, as a multiset, the cases the twin --test run with "
             "the same filters / ignore flags executed; sampled listed paths fed back as the only --exact filter select exactly that case.",
        note="args evaluation during tree construction is not an invocation; round trips only on unique paths.",
        ref="6 (C14)"),
    "C15": dict(
        technique="runtime monitoring: per-field resolution model vs. observed calls per thread, thread branches, samples/iters, counter rows and (ignored) marks of the real runner under the virtual clock",
        text="For every explored assignment of {unset, value} at runner (CLI / DIVAN_* / builder, with lower-priority decoys), benchmark and up to three groups, the observed calls per "
             "thread, t=N branches, samples/iters figures, throughput rows per counter kind (Bencher::counter replacing only its kind) and ignore marks equal what the per-field rule gives.",
        note="min/max/skip_ext_time observables only on single-thread runs (elapsed time is deterministic there); macro attribute syntax is covered by the generated-crate check.",
        ref="6 (C15)"),
    "C16": dict(
        technique="runtime monitoring: independent comparators applied to parsed sibling/argument sequences of the real output under every --sort/--sortr; pair/triple/sort oracle on the real comparators; Miri on the tokenizer",
        text="Every printed sibling sequence and argument sequence is non-descending (exactly reversed under --sortr) under an independent three-key comparator; natural_cmp and the "
             "argument comparator agree with the model on tens of thousands of pairs, are antisymmetric and transitive, and whole-list sorts are permutations.",
        note="Two genuine residual deviations are listed in known_findings.json (distinct entries at one source position; '-0' vs zero).",
        ref="6 (C16)"),
    "C17": dict(
        technique="runtime monitoring: printed row label vs. the value / type / const the body actually received (invocation log zipped with printed order) under sorts and filters; BenchArgs probe natively and under Miri",
        text="For every explored run each printed row's label equals the rendering of the argument, the const value and the type the body received; argument lists were evaluated at "
             "most once per process; the type-erased argument slice hands index i the i-th value (probe incl. borrowed string slices, owned strings, ZSTs, empty lists) also under Miri.",
        note="Synthetic bodies identify themselves through a slot table; the macro-generated pairing of body and label is covered by the generated-crate check (C12).",
        ref="6 (C17)"),
    "C20": dict(
        technique="runtime monitoring: the real stdout parsed back into a tree + table from glyphs/indentation alone and compared with the expected forest and, under the virtual clock, with the expected cells",
        text="Every explored output parses back unambiguously, glyphs and bars encode each node's true position, every expected group / benchmark / argument / thread branch appears exactly "
             "once and nothing else, every statistics row splits into six cells equal to the model rendering of the expected statistics, continuation rows (throughput, max alloc, "
             "alloc, dealloc) follow their benchmark and appear iff non-zero, ignored leaves are marked and not run; no NaN; actions bench, test, list.",
        note="Cells matched by order between separators, not by screen column; sortedness itself is C16's verdict.",
        ref="6 (C20)"),
    "C12": dict(
        technique="runtime monitoring of generated programs: registry dump, listing and invocation log of randomly generated crates (through the attribute macros and the linker) vs. what the generator wrote; repeated under other codegen settings",
        text="For every generated crate the registry (BENCH_ENTRIES / GROUP_ENTRIES dump: display name, raw name, module path, file / line / column of the attribute, every "
             "option as written, instantiation shape), the terse case list, the printed tree and the invocation log under --test equal, both ways, what the generator wrote: "
             "nothing missing, nothing extra, each case invoked exactly once with the argument / type / const it names; empty types/consts/args register nothing; same "
             "result with codegen-units=1 -O3 (and 16 -O0 in thorough).",
        note="Programs are sampled, not enumerated; constructor order is only varied through codegen settings. The macro-path slices of C13/C15/C16/C17 reuse the same crates.",
        ref="6 (C12)"),
}

NOT_YET = {}


def main():
    props = [json.loads(l)["id"] for l in open(os.path.join(VERIF, "properties.jsonl"))]
    try:
        commits = subprocess.run(["git", "-C", "/repo", "log", "--format=%h %s"], stdout=subprocess.PIPE, text=True).stdout.split("\n")
        hooks = [c.split()[0] for c in commits if c.startswith(tuple("0123456789abcdef")) and " verif_hooks:" in c]
    except Exception:
        hooks = []
    checks = []
    na = []
    for p in props:
        if p in CLAIMED:
            c = CLAIMED[p]
            checks.append({
                "property_id": p,
                "quick_cmd": "./check %s --tier quick" % p,
                "thorough_cmd": "./check %s --tier thorough" % p,
                "evidence_file": "/verif/evidence/%s.json" % p,
                "replay_cmd_template": "./check %s --replay {path}" % p,
                "engine": "vharness",
                "level_claimed": {"category": "exploration", "text": c["text"], "design_ref": "DESIGN.md section " + c["ref"]},
                "level_note": c["note"],
                "technique": c["technique"],
            })
        else:
            na.append({"property_id": p, "reason": NOT_YET.get(p, "monitor under construction in this session (driver not yet committed); will be claimed once its check runs")})
    m = {
        "version": 1,
        "setup_cmd": "./setup.sh",
        "hooks": {
            "guard": "cargo feature `verif_hooks` of the divan crate (off by default)",
            "enable": "the harness crate /verif/harness depends on divan = { path = \"/repo\", features = [\"verif_hooks\"] }; every check rebuilds it with cargo from /repo's working tree",
            "baseline_off_cmd": "cd /repo && cargo test --workspace --no-fail-fast --offline",
            "source_commits": list(reversed(hooks)),
            "add_only": True,
        },
        "engines": [
            {"name": "vharness", "path": "/verif/harness", "serves_properties": sorted(CLAIMED.keys()),
             "kind_free_text": "Rust drivers (loopdrv, pooldrv, allocdrv, puredrv, treedrv) that run the real divan code under instrumentation and dump event logs; "
                               "python oracles in /verif/vlib judge the logs; the same drivers run under Miri, ASan/LSan, TSan and valgrind"},
        ],
        "checks": checks,
        "not_applicable": na,
        "notes": "Runtime monitoring and sanitizers only. Exit 0 = held on what was observed, 1 = VIOLATION line, 2 = observed too little / harness error (never folded into either verdict). "
                 "known_findings.json lists the genuine defects found (fixed ones with their fix: commit; open ones keyed on exact signatures).",
    }
    with open(os.path.join(VERIF, "MANIFEST.json"), "w") as f:
        json.dump(m, f, indent=1)
    print("MANIFEST.json: %d checks, %d not_applicable" % (len(checks), len(na)))


if __name__ == "__main__":
    main()
